//! E1 — choice-driven stateless explorer with deviation bounding.
//! A harness body is a deterministic function of a choice sequence: wherever the environment has k
//! alternatives it calls `choose(k)`. The explorer re-executes the body from scratch for every
//! choice prefix (DFS); the default choice is 0 and the number of non-zero choices (deviations) is
//! bounded, not the depth: every execution runs to completion.

#[derive(Clone, Debug, Default)]
pub struct Choices {
    prefix: Vec<u8>,
    /// (choice taken, arity) at every choice point of this execution
    pub log: Vec<(u8, u8)>,
    /// arities recorded by the parent execution for the prefix positions (divergence check)
    expect: Vec<u8>,
    pub diverged: Option<String>,
}

impl Choices {
    pub fn new(prefix: Vec<u8>, expect: Vec<u8>) -> Self {
        Choices { prefix, log: Vec::new(), expect, diverged: None }
    }
    pub fn choose(&mut self, arity: usize) -> usize {
        let pos = self.log.len();
        let arity = arity.clamp(1, 255);
        let c = if pos < self.prefix.len() { self.prefix[pos] as usize } else { 0 };
        if pos < self.expect.len() && self.expect[pos] as usize != arity && self.diverged.is_none() {
            self.diverged = Some(format!("choice point {pos}: arity {arity} but the parent execution saw {}", self.expect[pos]));
        }
        if c >= arity {
            if self.diverged.is_none() {
                self.diverged = Some(format!("choice point {pos}: replayed choice {c} out of range for arity {arity}"));
            }
            self.log.push((0, arity as u8));
            return 0;
        }
        self.log.push((c as u8, arity as u8));
        c
    }
    pub fn taken(&self) -> Vec<u8> {
        self.log.iter().map(|x| x.0).collect()
    }
    pub fn deviations(&self) -> usize {
        self.log.iter().filter(|x| x.0 != 0).count()
    }
}

#[derive(Clone, Debug, Default)]
pub struct ExploreStats {
    pub executions: u64,
    pub choice_points: u64,
    pub max_depth: usize,
    pub by_deviations: Vec<u64>,
    pub divergences: Vec<String>,
}

/// Explores all executions with at most `bound` deviations. `run` executes the body with the given
/// choice provider and returns it (with its log filled); `visit` is called for every complete
/// execution.
pub fn explore(bound: usize, mut run: impl FnMut(Choices) -> Choices, mut visit: impl FnMut(&Choices)) -> ExploreStats {
    let mut stats = ExploreStats { by_deviations: vec![0; bound + 1], ..Default::default() };
    // stack of (prefix, expected arities)
    let mut stack: Vec<(Vec<u8>, Vec<u8>)> = vec![(vec![], vec![])];
    while let Some((prefix, expect)) = stack.pop() {
        let plen = prefix.len();
        let done = run(Choices::new(prefix, expect));
        stats.executions += 1;
        stats.choice_points += done.log.len() as u64;
        stats.max_depth = stats.max_depth.max(done.log.len());
        let dev = done.deviations();
        if dev < stats.by_deviations.len() {
            stats.by_deviations[dev] += 1;
        }
        if let Some(d) = &done.diverged {
            stats.divergences.push(d.clone());
        }
        visit(&done);
        // children: deviate at every later choice point
        let taken = done.taken();
        let arities: Vec<u8> = done.log.iter().map(|x| x.1).collect();
        let mut dev_before = taken[..plen.min(taken.len())].iter().filter(|c| **c != 0).count();
        for i in plen..done.log.len() {
            if dev_before + 1 <= bound {
                for alt in 1..done.log[i].1 {
                    let mut p = taken[..i].to_vec();
                    p.push(alt);
                    stack.push((p, arities[..=i].to_vec()));
                }
            }
            if taken[i] != 0 {
                dev_before += 1;
            }
        }
    }
    stats
}
