//! nexrad-mc: one sub-command per property. Usage:
//!   nexrad-mc <Cxx> <quick|thorough>
//!   nexrad-mc <Cxx> --replay <path>
#![allow(clippy::type_complexity)]
#![allow(dead_code)]

mod clock;
mod core;
mod enc;
mod explore;
mod guard;
mod props;
mod s3sim;
mod t31;

use crate::core::*;

#[global_allocator]
static GLOBAL: guard::CountingAlloc = guard::CountingAlloc;
use serde_json::Value;

type RunFn = fn(&'static Ctx) -> (&'static str, Value, Vec<&'static str>);
type ReplayFn = fn(&'static Ctx, &Value);

fn table() -> Vec<(&'static str, RunFn, ReplayFn)> {
    let mut t: Vec<(&'static str, RunFn, ReplayFn)> = Vec::new();
    #[cfg(feature = "full")]
    t.push(("C20", props::c20::run as RunFn, props::c20::replay as ReplayFn));
    #[cfg(feature = "full")]
    t.push(("C18", props::c18::run as RunFn, props::c18::replay as ReplayFn));
    #[cfg(any(feature = "full", feature = "v-aws"))]
    t.push(("C17", props::c17::run as RunFn, props::c17::replay as ReplayFn));
    #[cfg(any(feature = "full", feature = "v-aws"))]
    t.push(("C15", props::c15::run as RunFn, props::c15::replay as ReplayFn));
    #[cfg(feature = "full")]
    t.push(("C19", props::c19::run as RunFn, props::c19::replay as ReplayFn));
    t.push(("C14", props::c14::run as RunFn, props::c14::replay as ReplayFn));
    t.push(("C06", props::c06::run as RunFn, props::c06::replay as ReplayFn));
    #[cfg(feature = "f-decstack")]
    t.push(("C04", props::c04::run as RunFn, props::c04::replay as ReplayFn));
    #[cfg(feature = "f-decstack")]
    t.push(("C05", props::c05::run as RunFn, props::c05::replay as ReplayFn));
    #[cfg(feature = "f-decstack")]
    t.push(("C01", props::c01::run as RunFn, props::c01::replay as ReplayFn));
    t.push(("C03", props::c03::run as RunFn, props::c03::replay as ReplayFn));
    #[cfg(feature = "f-decstack")]
    t.push(("C07", props::c07::run as RunFn, props::c07::replay as ReplayFn));
    t.push(("C02", props::c02::run as RunFn, props::c02::replay as ReplayFn));
    t.push(("C13", props::c13::run as RunFn, props::c13::replay as ReplayFn));
    t.push(("C12", props::c12::run as RunFn, props::c12::replay as ReplayFn));
    t.push(("C11", props::c11::run as RunFn, props::c11::replay as ReplayFn));
    t.push(("C10", props::c10::run as RunFn, props::c10::replay as ReplayFn));
    #[cfg(feature = "f-decstack")]
    t.push(("C09", props::c09::run as RunFn, props::c09::replay as ReplayFn));
    #[cfg(any(feature = "full", feature = "v-aws"))]
    t.push(("C16", props::c16::run as RunFn, props::c16::replay as ReplayFn));
    t.push(("C08", props::c08::run as RunFn, props::c08::replay as ReplayFn));
    t
}

fn main() {
    let args: Vec<String> = std::env::args().collect();
    if args.len() < 3 {
        crate::core::elog!("usage: nexrad-mc <Cxx> <quick|thorough> | nexrad-mc <Cxx> --replay <path>");
        std::process::exit(3);
    }
    // process-global configuration is part of the environment the harness owns
    if std::env::var("VERIF_KEEP_TZ").is_err() {
        std::env::set_var("TZ", HARNESS_TZ);
    }
    install_panic_hook();
    // variant and worker processes must not outlive the process that started them (it may leave
    // through a watchdog): ask the kernel for SIGKILL when the parent dies
    if variant_name().is_some() || args.get(3).map(|s| s.as_str()) == Some("--worker") {
        extern "C" {
            fn prctl(option: i32, arg2: u64, arg3: u64, arg4: u64, arg5: u64) -> i32;
        }
        // SAFETY: PR_SET_PDEATHSIG (1) with SIGKILL (9)
        unsafe {
            prctl(1, 9, 0, 0, 0);
        }
    }
    clock::self_test();
    let Some((prop, run, replay)) = table().into_iter().find(|(p, _, _)| *p == args[1]) else {
        crate::core::elog!("MACHINERY: unknown property {}", args[1]);
        std::process::exit(3);
    };
    if args[2] == "--replay" {
        let path = args.get(3).unwrap_or_else(|| machinery("missing replay path"));
        let text = std::fs::read_to_string(path).unwrap_or_else(|e| machinery(&format!("cannot read {path}: {e}")));
        let v: Value = serde_json::from_str(&text).unwrap_or_else(|e| machinery(&format!("bad replay json: {e}")));
        // a case found in another build configuration is replayed by that configuration's binary
        if let (Some(cfg), None) = (v["case"]["build_config"].as_str(), variant_name()) {
            let Some((name, bin, _, what)) = VARIANTS.iter().find(|x| x.0 == cfg) else { machinery("replay: unknown build configuration") };
            println!("replaying in build configuration {name}: {what}");
            let st = std::process::Command::new(bin).args(&args[1..]).env("VERIF_VARIANT", name).status().unwrap_or_else(|e| machinery(&format!("cannot run {bin}: {e}")));
            std::process::exit(st.code().unwrap_or(3));
        }
        let ctx: &'static Ctx = Box::leak(Box::new(Ctx::new(prop, Tier::Quick, true)));
        set_logging(true);
        replay(ctx, &v["case"]);
        set_logging(false);
        replay(ctx, &v["case"]);
        let code = ctx.finish("other", serde_json::json!({}), vec![]);
        std::process::exit(code);
    }
    if args.get(3).map(|s| s.as_str()) == Some("--worker") {
        let tier = if args[2] == "thorough" { Tier::Thorough } else { Tier::Quick };
        let i: usize = args.get(4).and_then(|x| x.parse().ok()).unwrap_or(0);
        let n: usize = args.get(5).and_then(|x| x.parse().ok()).unwrap_or(1);
        let ctx: &'static Ctx = Box::leak(Box::new(Ctx::new(prop, tier, true)));
        match prop {
            #[cfg(feature = "full")]
            "C18" => props::c18::worker(ctx, i, n),
            #[cfg(feature = "f-decstack")]
            "C04" => props::c04::worker(ctx),
            _ => machinery("no worker mode for this property"),
        }
        std::process::exit(0);
    }
    let tier = match args[2].as_str() {
        "quick" => Tier::Quick,
        "thorough" => Tier::Thorough,
        _ => machinery("tier must be quick or thorough"),
    };
    let ctx: &'static Ctx = Box::leak(Box::new(Ctx::new(prop, tier, false)));
    // the other build configurations run concurrently with this one
    let variants = spawn_variants(prop, tier);
    // pass 1 with every log macro live (arguments of trace!/debug! are evaluated only when a logger
    // is installed at that level), pass 2 in the library's default state (no logging). Failures of
    // both passes accumulate in the context; the evidence describes the second pass and records
    // that the first one ran. C20 only drives cargo and is run once.
    // (C18's worker processes run the preliminary passes themselves)
    let two_passes = prop != "C20" && prop != "C18" && std::env::var("VERIF_SINGLE_PASS").is_err();
    if two_passes {
        for level in preliminary_log_levels(tier) {
            set_logging_level(level);
            // the Trace pass also runs with the process wall clock moved back to 1986, before any
            // NEXRAD Level II data: every data timestamp the code sees then lies in its future
            if level == log::LevelFilter::Trace {
                clock::set_global_now_ms(PASS1_CLOCK_MS);
            } else {
                clock::set_global_offset_ns(0);
            }
            // the Debug pass also places every byte buffer at an odd address
            guard::ODD_BYTE_BUFFERS.store(level == log::LevelFilter::Debug, std::sync::atomic::Ordering::SeqCst);
            // ... and has every environment variable the source names set
            set_source_env_vars(level == log::LevelFilter::Debug);
            // ... and a standard error stream that rejects every write
            break_stderr(level == log::LevelFilter::Trace && variant_name().is_none());
            let r1 = std::panic::catch_unwind(|| run(ctx));
            break_stderr(false);
            if r1.is_err() {
                let p = ESCAPED_PANIC.lock().ok().and_then(|g| g.clone()).unwrap_or_else(|| "<unknown panic>".into());
                if p.contains("/repo/") {
                    ctx.fail(&format!("panic_outside_guard:{}", panic_class(&p)), || p.clone(), || serde_json::json!({"escaped_panic": p, "logging": level.to_string()}));
                } else {
                    crate::core::elog!("MACHINERY: harness panic (logging pass {level}): {p}");
                    std::process::exit(3);
                }
            }
            ctx.mark_pass_boundary(&level.to_string().to_lowercase());
        }
    }
    clock::set_global_offset_ns(0);
    guard::ODD_BYTE_BUFFERS.store(false, std::sync::atomic::Ordering::SeqCst);
    set_source_env_vars(false);
    set_logging(false);
    let r = std::panic::catch_unwind(|| run(ctx));
    let code = match r {
        Ok((level, coverage, assumptions)) => {
            if s3sim::HANDLER_PANICS.load(std::sync::atomic::Ordering::SeqCst) > 0 {
                crate::core::elog!("MACHINERY: the S3 simulator's handler panicked; results are not trustworthy");
                std::process::exit(3);
            }
            collect_variants(ctx, variants);
            ctx.finish(level, coverage, assumptions)
        }
        Err(_) => {
            let p = ESCAPED_PANIC.lock().ok().and_then(|g| g.clone()).unwrap_or_else(|| "<unknown panic>".into());
            if p.contains("/repo/") {
                // a panic raised by the code under test outside a guarded call: still a verdict
                ctx.fail(&format!("panic_outside_guard:{}", panic_class(&p)), || p.clone(), || serde_json::json!({"escaped_panic": p}));
                ctx.finish("other", serde_json::json!({"explanation": "aborted: the code under test panicked outside a guarded call", "evaluations": 1, "distinct_nontrivial": 0}), vec![])
            } else {
                crate::core::elog!("MACHINERY: harness panic: {p}");
                3
            }
        }
    };
    std::process::exit(code);
}
