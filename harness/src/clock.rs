//! The wall clock as an owned source of nondeterminism.
//!
//! The harness binary defines `clock_gettime` itself. The Rust standard library (and through it
//! chrono's `Utc::now()`) reaches the kernel clock through that libc symbol, and a definition in the
//! executable wins over the shared library's at link time, so every `SystemTime::now()` taken
//! anywhere in this process — including inside the code under test — passes through here.
//! `CLOCK_REALTIME` (and its coarse twin) is answered from the harness's setting; every other clock
//! (tokio and `Instant` use `CLOCK_MONOTONIC`) is passed through untouched, so watchdogs, virtual
//! tokio time and timeouts are unaffected.
//!
//! Settings, in order of precedence: a per-thread absolute instant (`with_thread_now_ns`, frozen: the
//! same answer until changed), else the real clock plus a process-wide offset (`set_global_offset_ns`).
//! `self_test` proves the seam is really in the path of `chrono::Utc::now()`; the harness refuses to
//! run clock-dependent dimensions otherwise.

use std::cell::Cell;
use std::sync::atomic::{AtomicI64, AtomicU64, Ordering};

#[repr(C)]
pub struct Timespec {
    pub tv_sec: i64,
    pub tv_nsec: i64,
}

extern "C" {
    fn syscall(num: i64, ...) -> i64;
}

const SYS_CLOCK_GETTIME: i64 = 228; // x86_64
const CLOCK_REALTIME: i32 = 0;
const CLOCK_REALTIME_COARSE: i32 = 5;

static GLOBAL_OFFSET_NS: AtomicI64 = AtomicI64::new(0);
pub static REALTIME_READS: AtomicU64 = AtomicU64::new(0);

thread_local! {
    /// i64::MIN = no per-thread override
    static THREAD_NOW_NS: Cell<i64> = const { Cell::new(i64::MIN) };
}

/// # Safety
/// Same contract as libc's `clock_gettime`: `ts` must be valid for writes.
#[no_mangle]
pub unsafe extern "C" fn clock_gettime(clk: i32, ts: *mut Timespec) -> i32 {
    let rc = syscall(SYS_CLOCK_GETTIME, clk as i64, ts) as i32;
    if rc != 0 || ts.is_null() || (clk != CLOCK_REALTIME && clk != CLOCK_REALTIME_COARSE) {
        return rc;
    }
    REALTIME_READS.fetch_add(1, Ordering::Relaxed);
    let thread = THREAD_NOW_NS.try_with(|c| c.get()).unwrap_or(i64::MIN);
    let ns: i128 = if thread != i64::MIN {
        thread as i128
    } else {
        let off = GLOBAL_OFFSET_NS.load(Ordering::Relaxed);
        if off == 0 {
            return rc;
        }
        (*ts).tv_sec as i128 * 1_000_000_000 + (*ts).tv_nsec as i128 + off as i128
    };
    (*ts).tv_sec = ns.div_euclid(1_000_000_000) as i64;
    (*ts).tv_nsec = ns.rem_euclid(1_000_000_000) as i64;
    rc
}

/// The kernel's real wall clock in nanoseconds since the epoch, bypassing every setting.
pub fn real_now_ns() -> i64 {
    let mut ts = Timespec { tv_sec: 0, tv_nsec: 0 };
    // SAFETY: ts is a valid out-pointer
    let rc = unsafe { syscall(SYS_CLOCK_GETTIME, CLOCK_REALTIME as i64, &mut ts as *mut Timespec) };
    if rc != 0 {
        crate::core::machinery("clock_gettime syscall failed");
    }
    ts.tv_sec * 1_000_000_000 + ts.tv_nsec
}

pub fn set_global_offset_ns(off: i64) {
    GLOBAL_OFFSET_NS.store(off, Ordering::SeqCst);
}

pub fn global_offset_ns() -> i64 {
    GLOBAL_OFFSET_NS.load(Ordering::SeqCst)
}

/// Makes the process-wide clock read `target_ms` (milliseconds since the epoch) now and keep running.
pub fn set_global_now_ms(target_ms: i64) {
    set_global_offset_ns(target_ms.saturating_mul(1_000_000).saturating_sub(real_now_ns()));
}

/// Runs `f` with this thread's wall clock frozen at `ns` nanoseconds since the epoch.
pub fn with_thread_now_ns<T>(ns: i64, f: impl FnOnce() -> T) -> T {
    struct Restore(i64);
    impl Drop for Restore {
        fn drop(&mut self) {
            let _ = THREAD_NOW_NS.try_with(|c| c.set(self.0));
        }
    }
    let prev = THREAD_NOW_NS.with(|c| c.replace(ns));
    let _r = Restore(prev);
    f()
}

/// This thread's frozen wall clock in ms, if one is set.
pub fn thread_now_ms() -> Option<i64> {
    let v = THREAD_NOW_NS.with(|c| c.get());
    if v == i64::MIN { None } else { Some(v / 1_000_000) }
}

pub fn with_thread_now_ms<T>(ms: i64, f: impl FnOnce() -> T) -> T {
    with_thread_now_ns(ms.saturating_mul(1_000_000), f)
}

/// Proves that chrono's `Utc::now()` is answered by this module. Exits 3 (machinery) otherwise.
pub fn self_test() {
    let probe_ms: i64 = 4_102_444_800_123; // 2100-01-01T00:00:00.123Z
    let seen = with_thread_now_ms(probe_ms, || chrono::Utc::now().timestamp_millis());
    if seen != probe_ms {
        crate::core::machinery(&format!("wall-clock seam not in the path of Utc::now(): set {probe_ms}, read {seen}"));
    }
    let before = global_offset_ns();
    set_global_now_ms(500_000_000_000); // 1985-11-05
    let seen = chrono::Utc::now().timestamp_millis();
    set_global_offset_ns(before);
    if (seen - 500_000_000_000).abs() > 60_000 {
        crate::core::machinery(&format!("global wall-clock offset not effective: read {seen}"));
    }
    let real = chrono::Utc::now().timestamp_millis();
    if before == 0 && (real - real_now_ns() / 1_000_000).abs() > 60_000 {
        crate::core::machinery("wall clock did not return to real time after the self test");
    }
}
