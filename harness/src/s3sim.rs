//! E4 — loopback S3 simulator. A hand-written HTTP/1.1 server on 127.0.0.1:0 (own thread, one
//! request at a time) whose every answer is produced by a handler owned by the harness, so that
//! the environment's behaviour is fully controlled (and, for C17/C18, every answer is a choice
//! point of the E1 explorer). The library reaches it through the `verif-hooks` endpoint override.

use std::io::{Read, Write};
use std::net::{TcpListener, TcpStream};
use std::sync::atomic::{AtomicBool, Ordering};
use std::sync::{Arc, Mutex};

#[derive(Clone, Debug, PartialEq)]
pub enum Request {
    /// GET /<bucket>?list-type=2&prefix=..[&max-keys=..]
    List { bucket: String, prefix: String, max_keys: Option<usize>, continuation: Option<String>, raw: String },
    /// GET /<bucket>/<key>
    Get { bucket: String, key: String, raw: String },
    Other { raw: String },
}

impl Request {
    pub fn raw(&self) -> &str {
        match self {
            Request::List { raw, .. } | Request::Get { raw, .. } | Request::Other { raw } => raw,
        }
    }
}

#[derive(Clone, Debug)]
pub struct Response {
    pub status: u16,
    pub headers: Vec<(String, String)>,
    pub body: Vec<u8>,
    /// declare this Content-Length instead of body.len() (short-body fault)
    pub declared_len: Option<usize>,
    /// deliver the body in several TCP writes separated by a short pause, cut at these offsets
    /// (environment answer: how the transport fragments the body)
    pub split_at: Vec<usize>,
    /// how the end of the body is signalled; None = the simulator-wide default (`set_default_framing`)
    pub framing: Option<Framing>,
    /// the transfer dies after this many body bytes: the connection is closed although the framing
    /// promised more (full Content-Length declared / no terminating chunk)
    pub truncate_at: Option<usize>,
}

/// HTTP/1.1 body framings a real server may choose (S3 sends Content-Length for objects and
/// chunked transfer encoding for listings).
#[derive(Clone, Copy, Debug, PartialEq, Eq)]
pub enum Framing {
    Length,
    /// Transfer-Encoding: chunked with chunks of this many bytes
    Chunked(usize),
    /// neither header: the body ends when the server closes the connection
    Close,
}

static DEFAULT_FRAMING: std::sync::atomic::AtomicUsize = std::sync::atomic::AtomicUsize::new(0);

/// 0 = Content-Length, n >= 2 = chunked with n-byte chunks, 1 = close-delimited
pub fn set_default_framing(f: Framing) {
    DEFAULT_FRAMING.store(match f { Framing::Length => 0, Framing::Close => 1, Framing::Chunked(n) => n.max(2) }, Ordering::SeqCst);
}

pub fn default_framing() -> Framing {
    match DEFAULT_FRAMING.load(Ordering::SeqCst) {
        0 => Framing::Length,
        1 => Framing::Close,
        n => Framing::Chunked(n),
    }
}

static KEEP_ALIVE: AtomicBool = AtomicBool::new(false);

/// When on, the server keeps HTTP/1.1 connections open and serves any number of requests on each
/// (as S3 does); a connection is then handled on its own thread. Close-delimited framing is replaced
/// by Content-Length while it is on.
pub fn set_keep_alive(on: bool) {
    KEEP_ALIVE.store(on, Ordering::SeqCst);
}

pub const FRAMINGS: [Framing; 4] = [Framing::Length, Framing::Chunked(1000), Framing::Chunked(7), Framing::Close];

impl Response {
    pub fn new(status: u16, body: Vec<u8>) -> Self {
        Response { status, headers: vec![], body, declared_len: None, split_at: vec![], framing: None, truncate_at: None }
    }
    pub fn xml(status: u16, body: String) -> Self {
        Response { status, headers: vec![("Content-Type".into(), "application/xml".into())], body: body.into_bytes(), declared_len: None, split_at: vec![], framing: None, truncate_at: None }
    }
    pub fn header(mut self, k: &str, v: &str) -> Self {
        self.headers.push((k.into(), v.into()));
        self
    }
}

pub type Handler = Box<dyn FnMut(&Request) -> Response + Send>;

/// number of harness-handler panics (any non-zero value makes the run a machinery failure)
pub static HANDLER_PANICS: std::sync::atomic::AtomicUsize = std::sync::atomic::AtomicUsize::new(0);

pub struct Sim {
    pub port: u16,
    handler: Arc<Mutex<Option<Handler>>>,
    stop: Arc<AtomicBool>,
}

fn percent_decode(s: &str) -> String {
    fn hexval(c: u8) -> Option<u8> {
        match c {
            b'0'..=b'9' => Some(c - b'0'),
            b'a'..=b'f' => Some(c - b'a' + 10),
            b'A'..=b'F' => Some(c - b'A' + 10),
            _ => None,
        }
    }
    let b = s.as_bytes();
    let mut out = Vec::with_capacity(b.len());
    let mut i = 0;
    while i < b.len() {
        if b[i] == b'%' && i + 2 < b.len() + 1 && i + 2 <= b.len() - 1 {
            if let (Some(h), Some(l)) = (hexval(b[i + 1]), hexval(b[i + 2])) {
                out.push(h * 16 + l);
                i += 3;
                continue;
            }
        }
        out.push(b[i]);
        i += 1;
    }
    String::from_utf8_lossy(&out).to_string()
}

pub fn parse_request(head: &str) -> Request {
    let raw = head.lines().next().unwrap_or("").to_string();
    let mut parts = raw.split(' ');
    let method = parts.next().unwrap_or("");
    let target = parts.next().unwrap_or("");
    if method != "GET" {
        return Request::Other { raw };
    }
    let (path, query) = match target.split_once('?') {
        Some((p, q)) => (p, Some(q)),
        None => (target, None),
    };
    let path = path.trim_start_matches('/');
    let (bucket, key) = match path.split_once('/') {
        Some((b, k)) => (b.to_string(), k.to_string()),
        None => (path.to_string(), String::new()),
    };
    if let Some(q) = query {
        if q.split('&').any(|kv| kv == "list-type=2") && key.is_empty() {
            let mut prefix = String::new();
            let mut max_keys = None;
            let mut continuation = None;
            for kv in q.split('&') {
                if let Some(v) = kv.strip_prefix("prefix=") {
                    prefix = percent_decode(v);
                } else if let Some(v) = kv.strip_prefix("max-keys=") {
                    max_keys = v.parse().ok();
                } else if let Some(v) = kv.strip_prefix("continuation-token=") {
                    // query-string decoding as every HTTP server does it: '+' is a space
                    continuation = Some(percent_decode(&v.replace('+', " ")));
                }
            }
            return Request::List { bucket, prefix, max_keys, continuation, raw };
        }
    }
    Request::Get { bucket, key: percent_decode(&key), raw }
}

fn reason(status: u16) -> &'static str {
    match status {
        200 => "OK",
        204 => "No Content",
        206 => "Partial Content",
        400 => "Bad Request",
        403 => "Forbidden",
        404 => "Not Found",
        500 => "Internal Server Error",
        503 => "Service Unavailable",
        _ => "Status",
    }
}

fn serve(mut s: TcpStream, handler: &Arc<Mutex<Option<Handler>>>) {
    let _ = s.set_nodelay(true);
    loop {
        if !serve_one(&mut s, handler) || !KEEP_ALIVE.load(Ordering::SeqCst) {
            break;
        }
    }
    let _ = s.flush();
    let _ = s.shutdown(std::net::Shutdown::Both);
}

/// Serves one request; false when the peer closed the connection or sent nothing usable.
fn serve_one(s: &mut TcpStream, handler: &Arc<Mutex<Option<Handler>>>) -> bool {
    let keep = KEEP_ALIVE.load(Ordering::SeqCst);
    let mut buf = Vec::new();
    let mut tmp = [0u8; 2048];
    loop {
        match s.read(&mut tmp) {
            Ok(0) => return false,
            Ok(n) => {
                buf.extend_from_slice(&tmp[..n]);
                if buf.windows(4).any(|w| w == b"\r\n\r\n") {
                    break;
                }
                if buf.len() > 1 << 20 {
                    return false;
                }
            }
            Err(_) => return false,
        }
    }
    let head = String::from_utf8_lossy(&buf).to_string();
    let req = parse_request(&head);
    let resp = {
        let mut h = handler.lock().unwrap_or_else(|e| e.into_inner());
        match h.as_mut() {
            // a panic in a harness handler must not take the server thread down with it
            Some(f) => match std::panic::catch_unwind(std::panic::AssertUnwindSafe(|| f(&req))) {
                Ok(r) => r,
                Err(_) => {
                    crate::core::elog!("MACHINERY: simulator handler panicked on {:?}", req.raw());
                    HANDLER_PANICS.fetch_add(1, Ordering::SeqCst);
                    Response::new(500, b"handler panic".to_vec())
                }
            },
            None => Response::new(500, b"no handler".to_vec()),
        }
    };
    let mut out = format!("HTTP/1.1 {} {}\r\n", resp.status, reason(resp.status));
    for (k, v) in &resp.headers {
        out.push_str(&format!("{k}: {v}\r\n"));
    }
    let no_body = resp.status == 204 || resp.status == 304;
    let mut framing = resp.framing.unwrap_or_else(default_framing);
    if keep && framing == Framing::Close {
        framing = Framing::Length;
    }
    if !no_body {
        match framing {
            Framing::Length => out.push_str(&format!("Content-Length: {}\r\n", resp.declared_len.unwrap_or(resp.body.len()))),
            Framing::Chunked(_) => out.push_str("Transfer-Encoding: chunked\r\n"),
            Framing::Close => {}
        }
    }
    out.push_str(if keep && resp.truncate_at.is_none() { "Connection: keep-alive\r\n\r\n" } else { "Connection: close\r\n\r\n" });
    let _ = s.write_all(out.as_bytes());
    if !no_body {
        // the bytes that go on the wire after the head
        let upto = resp.truncate_at.map(|t| t.min(resp.body.len())).unwrap_or(resp.body.len());
        let wire: Vec<u8> = match framing {
            Framing::Chunked(n) => {
                let mut w = Vec::with_capacity(upto + upto / n.max(1) * 8 + 16);
                for c in resp.body[..upto].chunks(n.max(1)) {
                    w.extend_from_slice(format!("{:x}\r\n", c.len()).as_bytes());
                    w.extend_from_slice(c);
                    w.extend_from_slice(b"\r\n");
                }
                if resp.truncate_at.is_none() {
                    w.extend_from_slice(b"0\r\n\r\n");
                }
                w
            }
            _ => resp.body[..upto].to_vec(),
        };
        if resp.split_at.is_empty() {
            let _ = s.write_all(&wire);
        } else {
            let _ = s.flush();
            let mut cuts: Vec<usize> = resp.split_at.iter().copied().filter(|c| *c > 0 && *c < wire.len()).collect();
            cuts.sort();
            cuts.dedup();
            let mut at = 0;
            std::thread::sleep(std::time::Duration::from_millis(3));
            for c in cuts.into_iter().chain(std::iter::once(wire.len())) {
                let _ = s.write_all(&wire[at..c]);
                let _ = s.flush();
                at = c;
                std::thread::sleep(std::time::Duration::from_millis(3));
            }
        }
    }
    let _ = s.flush();
    keep && resp.truncate_at.is_none()
}

impl Sim {
    /// Starts the server thread and points the library at it (process-global environment variable).
    pub fn start() -> Sim {
        let listener = TcpListener::bind("127.0.0.1:0").expect("bind loopback");
        let port = listener.local_addr().expect("local addr").port();
        let handler: Arc<Mutex<Option<Handler>>> = Arc::new(Mutex::new(None));
        let stop = Arc::new(AtomicBool::new(false));
        let (h2, st2) = (handler.clone(), stop.clone());
        std::thread::spawn(move || {
            for conn in listener.incoming() {
                if st2.load(Ordering::SeqCst) {
                    break;
                }
                if let Ok(s) = conn {
                    if KEEP_ALIVE.load(Ordering::SeqCst) {
                        // an idle kept-alive connection must not block the accept loop
                        let h3 = h2.clone();
                        std::thread::spawn(move || serve(s, &h3));
                    } else {
                        serve(s, &h2);
                    }
                }
            }
        });
        std::env::set_var("NEXRAD_VERIF_S3_ENDPOINT", format!("http://127.0.0.1:{port}"));
        Sim { port, handler, stop }
    }

    pub fn set_handler(&self, h: Handler) {
        *self.handler.lock().unwrap_or_else(|e| e.into_inner()) = Some(h);
    }

    pub fn clear_handler(&self) {
        *self.handler.lock().unwrap_or_else(|e| e.into_inner()) = None;
    }
}

impl Drop for Sim {
    fn drop(&mut self) {
        self.stop.store(true, Ordering::SeqCst);
        let _ = TcpStream::connect(("127.0.0.1", self.port));
    }
}

// ---------------------------------------------------------------------------------------------
// XML / HTTP helpers

pub fn xml_escape(s: &str) -> String {
    let mut o = String::new();
    for c in s.chars() {
        match c {
            '&' => o.push_str("&amp;"),
            '<' => o.push_str("&lt;"),
            '>' => o.push_str("&gt;"),
            '"' => o.push_str("&quot;"),
            '\'' => o.push_str("&apos;"),
            c => o.push(c),
        }
    }
    o
}

#[derive(Clone, Debug, PartialEq)]
pub struct Obj {
    pub key: String,
    /// epoch milliseconds
    pub modified_ms: i64,
    pub size_text: String,
    pub fractional: bool,
}

pub fn iso8601(ms: i64, fractional: bool) -> String {
    let dt = chrono::DateTime::<chrono::Utc>::from_timestamp_millis(ms).unwrap_or_default();
    if fractional {
        dt.format("%Y-%m-%dT%H:%M:%S%.3fZ").to_string()
    } else {
        dt.format("%Y-%m-%dT%H:%M:%SZ").to_string()
    }
}

pub fn http_date(ms: i64) -> String {
    let dt = chrono::DateTime::<chrono::Utc>::from_timestamp_millis(ms).unwrap_or_default();
    dt.format("%a, %d %b %Y %H:%M:%S GMT").to_string()
}

/// ListBucketResult (list-type=2) for the given objects (already filtered, ordered, truncated).
/// `order` permutes the child elements of <Contents>: 0 = Key,LastModified,ETag,Size,StorageClass;
/// 1 = Size first; 2 = LastModified first, Key last.
fn xml_charrefs(s: &str) -> String {
    let mut o = String::new();
    for c in s.chars() {
        if c == '&' || c == '<' || c == '>' || c == '"' || c == '\'' || !c.is_ascii() {
            o.push_str(&format!("&#{};", c as u32));
        } else {
            o.push(c);
        }
    }
    o
}

/// ListBucketResult (list-type=2). `order` selects an equivalent serialisation of the same
/// information: 0 canonical; 1 Size first; 2 Key last; 3 pretty-printed (whitespace text nodes);
/// 4 numeric character references instead of entities / raw non-ASCII; 5 an <Owner> element with
/// children and a <ChecksumAlgorithm> inside every <Contents>; 6 pretty + owner.
/// ListObjectsV2 paging: the slice of `all` (already filtered and in bucket order) that one response
/// carries, and the continuation token a truncated page hands out. Tokens are opaque base64-like
/// text containing '+', '/' and '=' as real ones do; a token that does not come back exactly as
/// issued (after standard query-string decoding) is rejected: Err(()) = 400 InvalidArgument.
pub fn page(all: &[Obj], max_keys: Option<usize>, continuation: &Option<String>) -> Result<(Vec<Obj>, Option<String>), ()> {
    let start = match continuation {
        None => 0,
        Some(t) => {
            let inner = t.strip_prefix("AQ+").and_then(|r| r.strip_suffix("/Zz==")).ok_or(())?;
            usize::from_str_radix(inner, 16).map_err(|_| ())?
        }
    };
    if start > all.len() {
        return Err(());
    }
    let lim = max_keys.unwrap_or(1000).min(1000);
    let end = (start + lim).min(all.len());
    let next = if end < all.len() { Some(format!("AQ+{:x}/Zz==", end)) } else { None };
    Ok((all[start..end].to_vec(), next))
}

pub fn invalid_argument_xml() -> String {
    "<?xml version=\"1.0\" encoding=\"UTF-8\"?>\n<Error><Code>InvalidArgument</Code><Message>The continuation token provided is incorrect</Message></Error>".to_string()
}

pub fn list_xml(bucket: &str, prefix: &str, objs: &[Obj], truncated: bool, order: u8) -> String {
    list_xml_tok(bucket, prefix, objs, truncated, order, None)
}

pub fn list_xml_tok(bucket: &str, prefix: &str, objs: &[Obj], truncated: bool, order: u8, next_token: Option<&str>) -> String {
    let pretty = order == 3 || order == 6;
    let owner = order == 5 || order == 6;
    let esc = |x: &str| if order == 4 { xml_charrefs(x) } else { xml_escape(x) };
    let nl = if pretty { "\n  " } else { "" };
    let nl2 = if pretty { "\n    " } else { "" };
    let mut s = String::from("<?xml version=\"1.0\" encoding=\"UTF-8\"?>\n");
    s.push_str("<ListBucketResult xmlns=\"http://s3.amazonaws.com/doc/2006-03-01/\">");
    s.push_str(&format!("{nl}<Name>{}</Name>{nl}<Prefix>{}</Prefix>{nl}<KeyCount>{}</KeyCount>{nl}<MaxKeys>1000</MaxKeys>", esc(bucket), esc(prefix), objs.len()));
    s.push_str(&format!("{nl}<IsTruncated>{}</IsTruncated>", truncated));
    if let Some(t) = next_token {
        s.push_str(&format!("{nl}<NextContinuationToken>{}</NextContinuationToken>", esc(t)));
    }
    for o in objs {
        let key = format!("<Key>{}</Key>", esc(&o.key));
        let lm = format!("<LastModified>{}</LastModified>", iso8601(o.modified_ms, o.fractional));
        let etag = "<ETag>&quot;0123456789abcdef&quot;</ETag>".to_string();
        let size = format!("<Size>{}</Size>", o.size_text);
        let sc = "<StorageClass>STANDARD</StorageClass>".to_string();
        let mut parts = match order {
            1 => vec![size, key, lm, etag, sc],
            2 => vec![lm, etag, size, sc, key],
            _ => vec![key, lm, etag, size, sc],
        };
        if owner {
            parts.insert(2, format!("<Owner>{nl2}<ID>75aa57f09aa0c8caeab4f8c24e99d10f8e7faeebf76c078efc7c6caea54ba06a</ID>{nl2}<DisplayName>noaa-nexrad &amp; co</DisplayName></Owner>"));
            parts.push("<ChecksumAlgorithm>CRC32</ChecksumAlgorithm>".to_string());
        }
        s.push_str(nl);
        s.push_str("<Contents>");
        for p in parts {
            s.push_str(nl2);
            s.push_str(&p);
        }
        s.push_str(nl);
        s.push_str("</Contents>");
    }
    if truncated {
        s.push_str(nl);
        s.push_str("<NextContinuationToken>abc</NextContinuationToken>");
    }
    if pretty {
        s.push('\n');
    }
    s.push_str("</ListBucketResult>");
    s
}

pub fn not_found_xml(key: &str) -> String {
    format!("<?xml version=\"1.0\" encoding=\"UTF-8\"?>\n<Error><Code>NoSuchKey</Code><Message>The specified key does not exist.</Message><Key>{}</Key><RequestId>X</RequestId></Error>", xml_escape(key))
}

pub fn error_xml(code: &str) -> String {
    format!("<?xml version=\"1.0\" encoding=\"UTF-8\"?>\n<Error><Code>{code}</Code><Message>simulated</Message></Error>")
}

/// trivial executor for futures that never actually wait (in-memory search)
pub fn block_on_ready<F: std::future::Future>(f: F) -> F::Output {
    use std::task::{Context, Poll, RawWaker, RawWakerVTable, Waker};
    fn noop(_: *const ()) {}
    fn clone(_: *const ()) -> RawWaker {
        RawWaker::new(std::ptr::null(), &VTABLE)
    }
    static VTABLE: RawWakerVTable = RawWakerVTable::new(clone, noop, noop, noop);
    // SAFETY: the vtable functions are no-ops over a null pointer
    let waker = unsafe { Waker::from_raw(RawWaker::new(std::ptr::null(), &VTABLE)) };
    let mut cx = Context::from_waker(&waker);
    let mut f = std::pin::pin!(f);
    loop {
        if let Poll::Ready(v) = f.as_mut().poll(&mut cx) {
            return v;
        }
    }
}

pub fn runtime() -> tokio::runtime::Runtime {
    tokio::runtime::Builder::new_current_thread().enable_all().start_paused(true).build().expect("tokio runtime")
}
