//! Shared type-31 generator: block kinds, value plans, per-offset field tables.

use crate::enc::*;
use nexrad_decode::messages::digital_radar_data as drd;

pub const KIND_NAMES: [&[u8; 3]; 10] = [b"VOL", b"ELV", b"RAD", b"REF", b"VEL", b"SW ", b"ZDR", b"PHI", b"RHO", b"CFP"];

pub fn kind_label(k: usize) -> &'static str {
    ["VOL", "ELV", "RAD", "REF", "VEL", "SW", "ZDR", "PHI", "RHO", "CFP"][k]
}

pub fn fixed_len(kind: usize) -> usize {
    match kind {
        0 => 52,
        1 => 12,
        2 => 28,
        _ => 28,
    }
}

/// plan byte for (salt, index)
pub fn plan_byte(plan: u8, salt: usize, i: usize) -> u8 {
    let v = ((i * 7 + salt * 29 + 13) & 0xFF) as u8;
    match plan {
        0 => v,
        1 => !v,
        2 => 0x00,
        3 => 0xFF,
        _ => ((i * 37 + salt * 11 + 101) & 0xFF) as u8,
    }
}

/// A block of `kind` whose every non-structural byte comes from the plan. Moment blocks get
/// `gates` and `word_size` forced and `gates * word_size/8` data bytes.
pub fn plan_block(kind: usize, plan: u8, gates: u16, word_size: u8) -> Block {
    let n = fixed_len(kind);
    let mut b: Vec<u8> = (0..n).map(|i| plan_byte(plan, kind + 1, i)).collect();
    b[0] = if kind < 3 { b'R' } else { b'D' };
    b[1..4].copy_from_slice(KIND_NAMES[kind]);
    if kind >= 3 {
        b[8..10].copy_from_slice(&gates.to_be_bytes());
        b[19] = word_size;
        let dl = gates as usize * (word_size as usize / 8);
        b.extend((0..dl).map(|i| plan_byte(plan, kind + 40, i)));
    }
    Block { bytes: b }
}

pub fn plan_header(plan: u8) -> T31Header {
    let by = |i: usize| plan_byte(plan, 0, i);
    let u16_at = |i: usize| ((by(i) as u16) << 8) | by(i + 1) as u16;
    let u32_at = |i: usize| ((u16_at(i) as u32) << 16) | u16_at(i + 2) as u32;
    T31Header {
        icao: [by(0), by(1), by(2), by(3)],
        time: u32_at(4),
        date: u16_at(8),
        az_num: u16_at(10),
        az_angle: u32_at(12),
        compression: by(16),
        spare: by(17),
        radial_length: u16_at(18),
        spacing: by(20),
        status: by(21),
        elev_num: by(22),
        cut_sector: by(23),
        elev_angle: u32_at(24),
        spot_blanking: by(28),
        az_indexing: by(29),
    }
}

pub type Mismatch = (String, u64, u64);

/// Compare the decoded type-31 header with the bytes of `body` (which starts at the header).
pub fn header_mismatches(h: &drd::Header, body: &[u8]) -> Vec<Mismatch> {
    let f: Vec<(&str, usize, usize, u64)> = vec![
        ("radar_identifier", 0, 4, u32::from_be_bytes(h.radar_identifier) as u64),
        ("time", 4, 4, h.time as u64),
        ("date", 8, 2, h.date as u64),
        ("azimuth_number", 10, 2, h.azimuth_number as u64),
        ("azimuth_angle", 12, 4, h.azimuth_angle.to_bits() as u64),
        ("compression_indicator", 16, 1, h.compression_indicator as u64),
        ("spare", 17, 1, h.spare as u64),
        ("radial_length", 18, 2, h.radial_length as u64),
        ("azimuth_resolution_spacing", 20, 1, h.azimuth_resolution_spacing as u64),
        ("radial_status", 21, 1, h.radial_status as u64),
        ("elevation_number", 22, 1, h.elevation_number as u64),
        ("cut_sector_number", 23, 1, h.cut_sector_number as u64),
        ("elevation_angle", 24, 4, h.elevation_angle.to_bits() as u64),
        ("radial_spot_blanking_status", 28, 1, h.radial_spot_blanking_status as u64),
        ("azimuth_indexing_mode", 29, 1, h.azimuth_indexing_mode as u64),
        ("data_block_count", 30, 2, h.data_block_count as u64),
    ];
    f.into_iter()
        .filter_map(|(n, off, w, got)| {
            let exp = rd(body, off, w);
            (got != exp).then(|| (format!("header.{n}"), got, exp))
        })
        .collect()
}

fn id_fields(id: &drd::DataBlockId) -> Vec<(&'static str, usize, usize, u64)> {
    vec![
        ("data_block_type", 0, 1, id.data_block_type as u64),
        ("data_name", 1, 3, ((id.data_name[0] as u64) << 16) | ((id.data_name[1] as u64) << 8) | id.data_name[2] as u64),
    ]
}

fn cmp(prefix: &str, f: Vec<(&'static str, usize, usize, u64)>, blk: &[u8]) -> Vec<Mismatch> {
    f.into_iter()
        .filter_map(|(n, off, w, got)| {
            let exp = rd(blk, off, w);
            (got != exp).then(|| (format!("{prefix}.{n}"), got, exp))
        })
        .collect()
}

pub fn vol_mismatches(v: &drd::VolumeDataBlock, blk: &[u8]) -> Vec<Mismatch> {
    let mut f = id_fields(&v.data_block_id);
    f.extend(vec![
        ("lrtup", 4, 2, v.lrtup as u64),
        ("major_version_number", 6, 1, v.major_version_number as u64),
        ("minor_version_number", 7, 1, v.minor_version_number as u64),
        ("latitude", 8, 4, v.latitude.to_bits() as u64),
        ("longitude", 12, 4, v.longitude.to_bits() as u64),
        ("site_height", 16, 2, v.site_height as u16 as u64),
        ("feedhorn_height", 18, 2, v.feedhorn_height as u64),
        ("calibration_constant", 20, 4, v.calibration_constant.to_bits() as u64),
        ("horizontal_shv_tx_power", 24, 4, v.horizontal_shv_tx_power.to_bits() as u64),
        ("vertical_shv_tx_power", 28, 4, v.vertical_shv_tx_power.to_bits() as u64),
        ("system_differential_reflectivity", 32, 4, v.system_differential_reflectivity.to_bits() as u64),
        ("initial_system_differential_phase", 36, 4, v.initial_system_differential_phase.to_bits() as u64),
        ("volume_coverage_pattern_number", 40, 2, v.volume_coverage_pattern_number as u64),
        ("processing_status", 42, 2, v.processing_status as u64),
        ("zdr_bias_estimate_weighted_mean", 44, 2, v.zdr_bias_estimate_weighted_mean as u64),
        ("spare", 46, 6, v.spare.iter().fold(0u64, |a, b| (a << 8) | *b as u64)),
    ]);
    cmp("VOL", f, blk)
}

pub fn elv_mismatches(v: &drd::ElevationDataBlock, blk: &[u8]) -> Vec<Mismatch> {
    let mut f = id_fields(&v.data_block_id);
    f.extend(vec![
        ("lrtup", 4, 2, v.lrtup as u64),
        ("atmos", 6, 2, v.atmos as u16 as u64),
        ("calibration_constant", 8, 4, v.calibration_constant.to_bits() as u64),
    ]);
    cmp("ELV", f, blk)
}

pub fn rad_mismatches(v: &drd::RadialDataBlock, blk: &[u8]) -> Vec<Mismatch> {
    let mut f = id_fields(&v.data_block_id);
    f.extend(vec![
        ("lrtup", 4, 2, v.lrtup as u64),
        ("unambiguous_range", 6, 2, v.unambiguous_range as u64),
        ("horizontal_channel_noise_level", 8, 4, v.horizontal_channel_noise_level.to_bits() as u64),
        ("vertical_channel_noise_level", 12, 4, v.vertical_channel_noise_level.to_bits() as u64),
        ("nyquist_velocity", 16, 2, v.nyquist_velocity as u64),
        ("radial_flags", 18, 2, v.radial_flags as u64),
        ("horizontal_channel_calibration_constant", 20, 4, v.horizontal_channel_calibration_constant.to_bits() as u64),
        ("vertical_channel_calibration_constant", 24, 4, v.vertical_channel_calibration_constant.to_bits() as u64),
    ]);
    cmp("RAD", f, blk)
}

pub fn moment_mismatches(label: &str, g: &drd::GenericDataBlock, blk: &[u8]) -> Vec<Mismatch> {
    let h = &g.header;
    let mut f = id_fields(&h.data_block_id);
    f.extend(vec![
        ("reserved", 4, 4, h.reserved as u64),
        ("number_of_data_moment_gates", 8, 2, h.number_of_data_moment_gates as u64),
        ("data_moment_range", 10, 2, h.data_moment_range as u64),
        ("data_moment_range_sample_interval", 12, 2, h.data_moment_range_sample_interval as u64),
        ("tover", 14, 2, h.tover as u64),
        ("snr_threshold", 16, 2, h.snr_threshold as u64),
        ("control_flags", 18, 1, h.control_flags as u64),
        ("data_word_size", 19, 1, h.data_word_size as u64),
        ("scale", 20, 4, h.scale.to_bits() as u64),
        ("offset", 24, 4, h.offset.to_bits() as u64),
    ]);
    let mut out = cmp(label, f, blk);
    let data = &blk[28..];
    if g.encoded_data.len() != data.len() {
        out.push((format!("{label}.encoded_data.len"), g.encoded_data.len() as u64, data.len() as u64));
    } else if g.encoded_data != data {
        let i = g.encoded_data.iter().zip(data).position(|(a, b)| a != b).unwrap_or(0);
        out.push((format!("{label}.encoded_data[{i}]"), g.encoded_data[i] as u64, data[i] as u64));
    }
    out
}

/// The slot of message `m` that block kind `k` is expected to occupy, as a presence flag.
pub fn present(m: &drd::Message, kind: usize) -> bool {
    match kind {
        0 => m.volume_data_block.is_some(),
        1 => m.elevation_data_block.is_some(),
        2 => m.radial_data_block.is_some(),
        3 => m.reflectivity_data_block.is_some(),
        4 => m.velocity_data_block.is_some(),
        5 => m.spectrum_width_data_block.is_some(),
        6 => m.differential_reflectivity_data_block.is_some(),
        7 => m.differential_phase_data_block.is_some(),
        8 => m.correlation_coefficient_data_block.is_some(),
        _ => m.specific_diff_phase_data_block.is_some(),
    }
}

pub fn moment_slot(m: &drd::Message, kind: usize) -> Option<&drd::GenericDataBlock> {
    match kind {
        3 => m.reflectivity_data_block.as_ref(),
        4 => m.velocity_data_block.as_ref(),
        5 => m.spectrum_width_data_block.as_ref(),
        6 => m.differential_reflectivity_data_block.as_ref(),
        7 => m.differential_phase_data_block.as_ref(),
        8 => m.correlation_coefficient_data_block.as_ref(),
        9 => m.specific_diff_phase_data_block.as_ref(),
        _ => None,
    }
}

/// All mismatches of block `kind` of `m` against the block's encoded bytes.
pub fn block_mismatches(m: &drd::Message, kind: usize, blk: &[u8]) -> Vec<Mismatch> {
    match kind {
        0 => m.volume_data_block.as_ref().map(|v| vol_mismatches(v, blk)),
        1 => m.elevation_data_block.as_ref().map(|v| elv_mismatches(v, blk)),
        2 => m.radial_data_block.as_ref().map(|v| rad_mismatches(v, blk)),
        k => moment_slot(m, k).map(|g| moment_mismatches(kind_label(k), g, blk)),
    }
    .unwrap_or_else(|| vec![(format!("{}.absent", kind_label(kind)), 0, 1)])
}

/// A small realistic radial message (used by C01, C03, C14).
pub fn simple_radial(elev: u8, az: u16, date: u16, time: u32, moments: &[usize], gates: u16, vol_vcp: Option<u16>) -> (T31Header, Vec<Block>) {
    let mut h = T31Header::basic(elev, az, date, time);
    h.status = 1;
    let mut blocks = Vec::new();
    if let Some(v) = vol_vcp {
        blocks.push(Block::vol(v, elev));
    }
    blocks.push(Block::elv(elev));
    blocks.push(Block::rad(elev));
    for &k in moments {
        let ws = if k == 7 { 16 } else { 8 };
        let dl = gates as usize * (ws / 8);
        let data: Vec<u8> = (0..dl).map(|i| ((i * 3 + k * 17 + az as usize) % 251) as u8).collect();
        blocks.push(Block::moment(KIND_NAMES[k], gates, ws as u8, 2.0, 66.0, &data));
    }
    (h, blocks)
}
