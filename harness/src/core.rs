//! Shared machinery: run context, violation / known-finding classification, evidence writer,
//! panic capture, mixed-radix enumeration, hashing helpers.

use serde_json::{json, Value};
use std::cell::RefCell;
use std::collections::{BTreeMap, HashSet};
use std::panic::{catch_unwind, AssertUnwindSafe};
use std::sync::Mutex;
use std::time::Instant;

pub const VERIF_DIR: &str = "/verif";

#[derive(Clone, Copy, PartialEq, Eq, Debug)]
pub enum Tier {
    Quick,
    Thorough,
}

impl Tier {
    pub fn name(&self) -> &'static str {
        match self {
            Tier::Quick => "quick",
            Tier::Thorough => "thorough",
        }
    }
    pub fn thorough(&self) -> bool {
        *self == Tier::Thorough
    }
}

#[derive(Clone, Debug)]
pub struct KnownEntry {
    pub status: String,
    pub property: String,
    pub signature: String,
    pub what: String,
}

struct Seen {
    detail: String,
    witness: Value,
    count: u64,
}

/// Run context for one property check.
pub struct Ctx {
    pub prop: &'static str,
    pub tier: Tier,
    pub seed: u64,
    pub replaying: bool,
    t0: Instant,
    known: Vec<KnownEntry>,
    seen: Mutex<BTreeMap<String, Seen>>,
    notes: Mutex<Vec<String>>,
    pub build_configs: Mutex<Vec<Value>>,
}

/// Build-configuration variants of this harness: (name, binary, properties it can run, description).
/// The `check` script builds them next to the main binary; the main run spawns each applicable one
/// (`VERIF_VARIANT=<name>`), which runs the same property code against the library crates built
/// with that configuration and hands its failures back on a `WORKER_RESULT` line.
pub const VARIANTS: [(&str, &str, &[&str], &str); 7] = [
    (
        "stack128",
        "/verif/.target/release/nexrad-mc",
        &["C01", "C03", "C04", "C05", "C06", "C07", "C09", "C10", "C13", "C14", "C16", "C19"],
        "the main build, with every probe operation of the history checks also run on a thread whose stack is 128 KiB (the default of musl-based systems); one pass; a process that dies there is a verdict",
    ),
    (
        "dbg",
        "/verif/.target/v-dbg/dbg/nexrad-mc",
        &["C01", "C02", "C03", "C04", "C05", "C06", "C07", "C08", "C09", "C10", "C11", "C12", "C13", "C14", "C15", "C16", "C17", "C18", "C19"],
        "all features, debug-assertions on (cfg(debug_assertions) code and debug_assert! are live), compiled with -C target-cpu=x86-64-v3 where the machine has fma + avx2 (cfg(target_feature = ..) code is live)",
    ),
    (
        "bare",
        "/verif/.target/v-bare/release/nexrad-mc",
        &["C02", "C03", "C06", "C08", "C10", "C11", "C12", "C13", "C14"],
        "nexrad-decode, nexrad-data and nexrad-model built with default-features = false and no features; the checks are restricted to the API that exists then",
    ),
    (
        "x1",
        "/verif/.target/v-x1/release/nexrad-mc",
        &["C02", "C03", "C06", "C08", "C10", "C11", "C12", "C13", "C14", "C15", "C16", "C17"],
        "no uom anywhere; nexrad-decode with nexrad-model; nexrad-data with aws, serde, bincode, bzip2, nexrad-model but without its nexrad-decode link; nexrad-model with chrono, serde",
    ),
    (
        "x2",
        "/verif/.target/v-x2/release/nexrad-mc",
        &["C02", "C03", "C06", "C08", "C10", "C11", "C12", "C13", "C14", "C15", "C16", "C17"],
        "nexrad-decode with uom but without nexrad-model; nexrad-data with aws, serde, bincode only; nexrad-model without features",
    ),
    (
        "dec",
        "/verif/.target/v-dec/release/nexrad-mc",
        &["C01", "C03", "C04", "C05", "C06", "C07", "C09", "C14"],
        "the whole decode stack without aws: nexrad-data with decode + nexrad-model but no aws feature (no aws module, no reqwest/tokio/xml in the library, no AWS error variants); nexrad-decode and nexrad-model with all features - a consumer that reads volume files from disk",
    ),
    (
        "aws",
        "/verif/.target/v-aws/release/nexrad-mc",
        &["C06", "C14", "C15", "C16", "C17"],
        "nexrad-data built with only the aws feature (+ verif-hooks), no decode; nexrad-decode and nexrad-model without features",
    ),
];

pub fn variant_name() -> Option<String> {
    std::env::var("VERIF_VARIANT").ok().filter(|v| !v.is_empty())
}

/// Spawns the applicable variant binaries for `prop`; `collect_variants` waits for them.
pub fn spawn_variants(prop: &str, tier: Tier) -> Vec<(&'static str, &'static str, Option<std::process::Child>)> {
    let mut out = Vec::new();
    if variant_name().is_some() || std::env::var("VERIF_NO_VARIANTS").is_ok() {
        return out;
    }
    for (name, bin, props, what) in VARIANTS {
        if !props.contains(&prop) {
            continue;
        }
        if !std::path::Path::new(bin).exists() {
            out.push((name, what, None));
            continue;
        }
        let mut cmd = std::process::Command::new(bin);
        if name == "stack128" {
            cmd.env("VERIF_SMALL_STACK", "131072").env("VERIF_SINGLE_PASS", "1");
        }
        let child = cmd
            .args([prop, tier.name()])
            .env("VERIF_VARIANT", name)
            .stdout(std::process::Stdio::piped())
            .stderr(std::process::Stdio::inherit())
            .spawn()
            .unwrap_or_else(|e| machinery(&format!("spawn variant {name}: {e}")));
        out.push((name, what, Some(child)));
    }
    out
}

pub fn collect_variants(ctx: &Ctx, children: Vec<(&'static str, &'static str, Option<std::process::Child>)>) {
    for (name, what, child) in children {
        let Some(child) = child else {
            println!("NOTE {}: build configuration '{name}' was not built (its build against /repo failed; see /verif/.target/build-{name}.log); not checked in that configuration", ctx.prop);
            ctx.build_configs.lock().unwrap_or_else(|e| e.into_inner()).push(json!({"name": name, "configuration": what, "status": "not built"}));
            continue;
        };
        let o = child.wait_with_output().unwrap_or_else(|e| machinery(&format!("wait variant {name}: {e}")));
        let text = String::from_utf8_lossy(&o.stdout).to_string();
        let line = text.lines().find_map(|l| l.strip_prefix("WORKER_RESULT "));
        if line.is_none() && name == "stack128" && !o.status.success() {
            // the child announces every small-stack case before running it; dying there (stack
            // overflow cannot be caught) is a verdict about that case
            let last = text.lines().rev().find_map(|l| l.strip_prefix("SECTION_CASE ")).unwrap_or("<before the first small-stack case>").to_string();
            use std::os::unix::process::ExitStatusExt;
            let how = match (o.status.signal(), o.status.code()) {
                (Some(s), _) => format!("killed by signal {s}"),
                (_, Some(c)) => format!("exit status {c}"),
                _ => "unknown termination".to_string(),
            };
            if last.starts_with('<') {
                machinery(&format!("variant stack128 of {} died outside a small-stack case: {how}", ctx.prop));
            }
            ctx.fail(
                "abort:small_stack:process_died_running_an_operation_on_a_128_KiB_stack",
                || format!("[build configuration stack128: {what}] the process died ({how}) while running `{last}` on a thread with a 128 KiB stack"),
                || json!({"op": "history", "what": last, "build_config": "stack128"}),
            );
            ctx.build_configs.lock().unwrap_or_else(|e| e.into_inner()).push(json!({"name": name, "configuration": what, "status": "died", "last_case": last}));
            continue;
        }
        let Some(v) = line.and_then(|l| serde_json::from_str::<Value>(l).ok()) else {
            machinery(&format!("variant {name} of {} produced no result (status {:?}); output tail: {}", ctx.prop, o.status, text.chars().rev().take(600).collect::<String>().chars().rev().collect::<String>()));
        };
        let mut fails = v["fails"].clone();
        let n = fails.as_array().map(|a| a.len()).unwrap_or(0);
        if let Some(a) = fails.as_array_mut() {
            for f in a.iter_mut() {
                let d = f["detail"].as_str().unwrap_or("").to_string();
                f["detail"] = json!(format!("[build configuration {name}: {what}] {d}"));
                if let Some(w) = f["witness"].as_object_mut() {
                    w.insert("build_config".into(), json!(name));
                }
            }
        }
        ctx.import_fails(&fails);
        ctx.build_configs.lock().unwrap_or_else(|e| e.into_inner()).push(json!({
            "name": name, "configuration": what, "status": "ran", "evaluations": v["evaluations"], "wall_s": v["wall_s"], "distinct_failure_signatures": n,
        }));
    }
}

impl Ctx {
    pub fn new(prop: &'static str, tier: Tier, replaying: bool) -> Self {
        let seed = std::env::var("VERIF_SEED")
            .ok()
            .and_then(|s| s.parse().ok())
            .unwrap_or(0);
        let known = load_known(prop);
        Ctx {
            prop,
            tier,
            seed,
            replaying,
            t0: Instant::now(),
            known,
            seen: Mutex::new(BTreeMap::new()),
            notes: Mutex::new(Vec::new()),
            build_configs: Mutex::new(Vec::new()),
        }
    }

    /// Record a disagreement between the implementation and the oracle. `signature` is the
    /// class-level identity of the failure (clause + input class), `witness` a replayable case.
    pub fn fail(&self, signature: &str, detail: impl FnOnce() -> String, witness: impl FnOnce() -> Value) {
        let mut seen = self.seen.lock().unwrap_or_else(|e| e.into_inner());
        if let Some(s) = seen.get_mut(signature) {
            s.count += 1;
            return;
        }
        seen.insert(
            signature.to_string(),
            Seen {
                detail: detail(),
                witness: witness(),
                count: 1,
            },
        );
    }

    /// Failures recorded so far (for worker processes to hand to the parent).
    pub fn export_fails(&self) -> Value {
        let seen = self.seen.lock().unwrap_or_else(|e| e.into_inner());
        Value::Array(seen.iter().map(|(k, s)| json!({"signature": k, "detail": s.detail, "witness": s.witness, "count": s.count})).collect())
    }

    pub fn import_fails(&self, v: &Value) {
        if let Some(a) = v.as_array() {
            let mut seen = self.seen.lock().unwrap_or_else(|e| e.into_inner());
            for f in a {
                let sig = f["signature"].as_str().unwrap_or("?").to_string();
                let count = f["count"].as_u64().unwrap_or(1);
                match seen.get_mut(&sig) {
                    Some(s) => s.count += count,
                    None => {
                        seen.insert(sig, Seen { detail: f["detail"].as_str().unwrap_or("").to_string(), witness: f["witness"].clone(), count });
                    }
                }
            }
        }
    }

    /// Tags the failures recorded so far as found in the given pass (logging configuration).
    pub fn mark_pass_boundary(&self, pass: &str) {
        let mut seen = self.seen.lock().unwrap_or_else(|e| e.into_inner());
        for (_, s) in seen.iter_mut() {
            if !s.detail.starts_with("[pass ") {
                s.detail = format!("[pass logging={pass}] {}", s.detail);
            }
        }
        drop(seen);
        self.note(format!("pass with logging={pass} completed before the reported pass"));
    }

    pub fn is_known(&self, signature: &str) -> bool {
        self.known
            .iter()
            .any(|k| k.status == "known" && k.signature == signature)
    }

    pub fn note(&self, s: String) {
        self.notes.lock().unwrap_or_else(|e| e.into_inner()).push(s);
    }

    pub fn elapsed(&self) -> f64 {
        self.t0.elapsed().as_secs_f64()
    }

    pub fn failure_count(&self) -> usize {
        self.seen.lock().unwrap_or_else(|e| e.into_inner()).len()
    }

    /// Write evidence, print KNOWN-FINDING / VIOLATION lines, return the process exit code.
    pub fn finish(&self, level: &str, mut coverage: Value, assumptions: Vec<&str>) -> i32 {
        if !self.replaying {
            if let Some(name) = variant_name() {
                // a build-configuration variant: hand the failures to the parent, write nothing
                println!("WORKER_RESULT {}", json!({"variant": name, "fails": self.export_fails(), "evaluations": coverage["evaluations"], "wall_s": (self.elapsed() * 10.0).round() / 10.0}));
                return 0;
            }
        }
        let seen = self.seen.lock().unwrap_or_else(|e| e.into_inner());
        let mut violations = 0usize;
        let mut known_hits = Vec::new();
        let mut viol_list = Vec::new();
        let _ = std::fs::create_dir_all(format!("{VERIF_DIR}/replays"));
        for (sig, s) in seen.iter() {
            if let Some(k) = self
                .known
                .iter()
                .find(|k| k.status == "known" && &k.signature == sig)
            {
                println!(
                    "KNOWN-FINDING: property={} signature=[{}] {} ({} cases this run)",
                    self.prop, sig, k.what, s.count
                );
                known_hits.push(json!({"signature": sig, "cases": s.count}));
            } else {
                violations += 1;
                let path = format!(
                    "{VERIF_DIR}/replays/{}-{}-{:016x}.json",
                    self.prop,
                    self.tier.name(),
                    fnv64(sig.as_bytes())
                );
                let body = json!({
                    "property": self.prop,
                    "signature": sig,
                    "detail": s.detail,
                    "cases_with_this_signature": s.count,
                    "case": s.witness,
                });
                // a replay reports against the file it was given and never rewrites it
                if !self.replaying {
                    let _ = std::fs::write(&path, serde_json::to_string_pretty(&body).unwrap_or_default());
                }
                if violations <= 25 {
                    println!("VIOLATION property={} replay={}", self.prop, path);
                    println!("  signature: {}", sig);
                    println!("  detail: {}", truncate(&s.detail, 600));
                }
                viol_list.push(json!({"signature": sig, "cases": s.count, "replay": path}));
            }
        }
        if violations > 25 {
            println!("({} further distinct violation signatures not printed)", violations - 25);
        }
        let wall = self.t0.elapsed().as_secs_f64();
        if let Value::Object(m) = &mut coverage {
            m.insert("known_findings_hit".into(), Value::Array(known_hits));
            m.insert("violation_signatures".into(), Value::Array(viol_list));
            m.insert(
                "environment".into(),
                json!({
                    "TZ": std::env::var("TZ").unwrap_or_default(),
                    "logging_passes": if self.prop == "C20" || std::env::var("VERIF_SINGLE_PASS").is_ok() { vec!["off".to_string()] } else { let mut v: Vec<String> = preliminary_log_levels(self.tier).iter().map(|l| format!("{l} (sink logger, nexrad targets{})", if *l == log::LevelFilter::Trace { "; wall clock set to 1986-07-01; stderr replaced by a broken pipe (main configuration)" } else if *l == log::LevelFilter::Debug { "; byte buffers allocated at odd addresses; every environment-variable-shaped literal of the source set to 1" } else { "" })).collect(); v.push("Off, real wall clock (reported)".into()); v },
                    "wall_clock": "owned: the harness binary defines clock_gettime; CLOCK_REALTIME answers come from the harness (self-tested against chrono::Utc::now at start-up)",
                    "profile": if cfg!(debug_assertions) { "opt-level 2, overflow-checks on, debug-assertions on" } else { "opt-level 2, overflow-checks on, debug-assertions off" },
                }),
            );
            let bc = self.build_configs.lock().unwrap_or_else(|e| e.into_inner()).clone();
            if !bc.is_empty() {
                m.insert("build_configurations_also_run".into(), Value::Array(bc));
            }
            let notes = self.notes.lock().unwrap_or_else(|e| e.into_inner()).clone();
            if !notes.is_empty() {
                m.insert("notes".into(), json!(notes));
            }
        }
        if !self.replaying {
            let ev = json!({
                "property_id": self.prop,
                "tier": self.tier.name(),
                "seed": self.seed,
                "level": level,
                "coverage": coverage,
                "assumptions": assumptions,
                "wall_s": (wall * 1000.0).round() / 1000.0,
                "violations": violations,
            });
            let _ = std::fs::create_dir_all(format!("{VERIF_DIR}/evidence"));
            let path = format!("{VERIF_DIR}/evidence/{}.json", self.prop);
            if let Err(e) = std::fs::write(&path, serde_json::to_string_pretty(&ev).unwrap_or_default()) {
                crate::core::elog!("MACHINERY: cannot write evidence {path}: {e}");
                return 3;
            }
        }
        println!(
            "{} {} done: violations={} wall={:.1}s",
            self.prop,
            self.tier.name(),
            violations,
            wall
        );
        if violations > 0 {
            1
        } else {
            0
        }
    }
}

fn truncate(s: &str, n: usize) -> String {
    if s.len() <= n {
        s.to_string()
    } else {
        let mut end = n;
        while !s.is_char_boundary(end) {
            end -= 1;
        }
        format!("{}…", &s[..end])
    }
}

fn load_known(prop: &str) -> Vec<KnownEntry> {
    let path = format!("{VERIF_DIR}/known_findings.json");
    let Ok(text) = std::fs::read_to_string(&path) else {
        return Vec::new();
    };
    let Ok(v) = serde_json::from_str::<Value>(&text) else {
        crate::core::elog!("MACHINERY: known_findings.json does not parse");
        std::process::exit(3);
    };
    let mut out = Vec::new();
    if let Some(entries) = v.get("entries").and_then(|e| e.as_array()) {
        for e in entries {
            let g = |k: &str| e.get(k).and_then(|x| x.as_str()).unwrap_or("").to_string();
            if g("property") == prop {
                out.push(KnownEntry {
                    status: g("status"),
                    property: g("property"),
                    signature: g("signature"),
                    what: g("what"),
                });
            }
        }
    }
    out
}

// ---------------------------------------------------------------------------------------------
// panic capture

thread_local! {
    static LAST_PANIC: RefCell<Option<String>> = const { RefCell::new(None) };
    static QUIET: RefCell<bool> = const { RefCell::new(false) };
}

/// First panic that was not raised inside `guarded` (either a harness bug or a subject call the
/// harness failed to guard); main() classifies it by its source location.
pub static ESCAPED_PANIC: Mutex<Option<String>> = Mutex::new(None);

pub fn install_panic_hook() {
    let default = std::panic::take_hook();
    std::panic::set_hook(Box::new(move |info| {
        let quiet = QUIET.with(|q| *q.borrow());
        let msg = if let Some(s) = info.payload().downcast_ref::<&str>() {
            s.to_string()
        } else if let Some(s) = info.payload().downcast_ref::<String>() {
            s.clone()
        } else {
            "<non-string panic>".to_string()
        };
        let loc = info
            .location()
            .map(|l| format!("{}:{}", l.file(), l.line()))
            .unwrap_or_default();
        if quiet {
            LAST_PANIC.with(|p| *p.borrow_mut() = Some(format!("{msg} @ {loc}")));
        } else {
            if let Ok(mut g) = ESCAPED_PANIC.lock() {
                if g.is_none() {
                    *g = Some(format!("{msg} @ {loc}"));
                }
            }
            default(info);
        }
    }));
}

/// Outcome of calling the subject under `catch_unwind`.
#[derive(Debug, Clone, PartialEq)]
pub enum Caught<T> {
    Ret(T),
    Panic(String),
}

impl<T> Caught<T> {
    pub fn is_panic(&self) -> bool {
        matches!(self, Caught::Panic(_))
    }
}

pub fn guarded<T>(f: impl FnOnce() -> T) -> Caught<T> {
    QUIET.with(|q| *q.borrow_mut() = true);
    let r = catch_unwind(AssertUnwindSafe(f));
    QUIET.with(|q| *q.borrow_mut() = false);
    match r {
        Ok(v) => Caught::Ret(v),
        Err(_) => Caught::Panic(
            LAST_PANIC
                .with(|p| p.borrow_mut().take())
                .unwrap_or_else(|| "<panic>".into()),
        ),
    }
}

/// Strip the line number / message variability from a panic description to obtain a stable class
/// (file name without line, first words of the message).
pub fn panic_class(p: &str) -> String {
    let (msg, loc) = match p.rsplit_once(" @ ") {
        Some((m, l)) => (m, l),
        None => (p, ""),
    };
    let file = loc.rsplit_once(':').map(|(f, _)| f).unwrap_or(loc);
    let file = file.rsplit('/').next().unwrap_or(file);
    let words: Vec<&str> = msg
        .split(|c: char| !c.is_ascii_alphabetic())
        .filter(|w| !w.is_empty())
        .take(4)
        .collect();
    format!("{}:{}", file, words.join("_"))
}

// ---------------------------------------------------------------------------------------------
// hashing / distinct counting

pub fn fnv64(bytes: &[u8]) -> u64 {
    let mut h: u64 = 0xcbf29ce484222325;
    for b in bytes {
        h ^= *b as u64;
        h = h.wrapping_mul(0x100000001b3);
    }
    h
}

pub fn hash128(bytes: &[u8]) -> u128 {
    // two independent FNV-style lanes; collisions at the 1e7 scale are negligible
    let mut a: u64 = 0xcbf29ce484222325;
    let mut b: u64 = 0x9e3779b97f4a7c15;
    for x in bytes {
        a ^= *x as u64;
        a = a.wrapping_mul(0x100000001b3);
        b = (b ^ (*x as u64)).wrapping_mul(0xff51afd7ed558ccd).rotate_left(31);
    }
    ((a as u128) << 64) | b as u128
}

/// Accumulates coverage statistics; mergeable so that rayon folds can combine them.
#[derive(Default)]
pub struct Stats {
    pub evaluations: u64,
    pub nontrivial: HashSet<u128>,
    pub outcomes: BTreeMap<String, u64>,
    pub dims: BTreeMap<String, BTreeMap<String, u64>>,
    pub samples: Vec<Value>,
    pub counters: BTreeMap<String, u64>,
}

impl Stats {
    pub fn new() -> Self {
        Self::default()
    }
    pub fn eval(&mut self) {
        self.evaluations += 1;
    }
    pub fn nontrivial(&mut self, key: &[u8]) {
        self.nontrivial.insert(hash128(key));
    }
    pub fn outcome(&mut self, k: &str) {
        *self.outcomes.entry(k.to_string()).or_insert(0) += 1;
    }
    pub fn dim(&mut self, dim: &str, val: impl ToString) {
        *self
            .dims
            .entry(dim.to_string())
            .or_default()
            .entry(val.to_string())
            .or_insert(0) += 1;
    }
    pub fn count(&mut self, k: &str, n: u64) {
        *self.counters.entry(k.to_string()).or_insert(0) += n;
    }
    pub fn sample(&mut self, max: usize, v: impl FnOnce() -> Value) {
        if self.samples.len() < max {
            self.samples.push(v());
        }
    }
    pub fn merge(mut self, other: Stats) -> Stats {
        self.evaluations += other.evaluations;
        if self.nontrivial.len() < other.nontrivial.len() {
            let mut o = other.nontrivial;
            o.extend(self.nontrivial.drain());
            self.nontrivial = o;
        } else {
            self.nontrivial.extend(other.nontrivial);
        }
        for (k, v) in other.outcomes {
            *self.outcomes.entry(k).or_insert(0) += v;
        }
        for (d, m) in other.dims {
            let e = self.dims.entry(d).or_default();
            for (k, v) in m {
                *e.entry(k).or_insert(0) += v;
            }
        }
        for (k, v) in other.counters {
            *self.counters.entry(k).or_insert(0) += v;
        }
        for s in other.samples {
            if self.samples.len() < 12 {
                self.samples.push(s);
            }
        }
        self
    }
    pub fn to_json(&self) -> Value {
        json!({
            "evaluations": self.evaluations,
            "nontrivial": self.nontrivial.iter().map(|h| format!("{:032x}", h)).collect::<Vec<_>>(),
            "outcomes": self.outcomes,
            "dims": self.dims,
            "samples": self.samples,
            "counters": self.counters,
        })
    }

    pub fn from_json(v: &Value) -> Stats {
        let mut s = Stats::new();
        s.evaluations = v["evaluations"].as_u64().unwrap_or(0);
        if let Some(a) = v["nontrivial"].as_array() {
            for h in a {
                if let Some(x) = h.as_str().and_then(|x| u128::from_str_radix(x, 16).ok()) {
                    s.nontrivial.insert(x);
                }
            }
        }
        let map = |v: &Value| -> BTreeMap<String, u64> { v.as_object().map(|o| o.iter().map(|(k, x)| (k.clone(), x.as_u64().unwrap_or(0))).collect()).unwrap_or_default() };
        s.outcomes = map(&v["outcomes"]);
        s.counters = map(&v["counters"]);
        if let Some(o) = v["dims"].as_object() {
            for (k, x) in o {
                s.dims.insert(k.clone(), map(x));
            }
        }
        if let Some(a) = v["samples"].as_array() {
            s.samples = a.clone();
        }
        s
    }

    pub fn coverage(&self, rule: &str, exhaustive: bool, bound: Value) -> Value {
        json!({
            "evaluations": self.evaluations,
            "distinct_nontrivial": self.nontrivial.len(),
            "rule": rule,
            "samples": self.samples,
            "exhaustive": exhaustive,
            "bound": bound,
            "distinct_outcomes": self.outcomes,
            "alphabet_coverage": self.dims,
            "counters": self.counters,
        })
    }
}

// ---------------------------------------------------------------------------------------------
// mixed radix product enumeration

/// Decodes `index` into digits for the given radices (least significant first).
pub fn unrank(mut index: u64, radices: &[u64]) -> Vec<u64> {
    let mut out = Vec::with_capacity(radices.len());
    for r in radices {
        out.push(index % r);
        index /= r;
    }
    out
}

pub fn product(radices: &[u64]) -> u64 {
    radices.iter().product()
}

/// All words over `0..k` of length exactly `len`, as an iterator of digit vectors.
pub fn words(k: u64, len: usize) -> impl Iterator<Item = Vec<u64>> {
    let total = k.pow(len as u32);
    (0..total).map(move |i| {
        let mut v = Vec::with_capacity(len);
        let mut x = i;
        for _ in 0..len {
            v.push(x % k);
            x /= k;
        }
        v
    })
}

pub fn hex(bytes: &[u8]) -> String {
    let mut s = String::with_capacity(bytes.len() * 2);
    for b in bytes {
        s.push_str(&format!("{:02x}", b));
    }
    s
}

pub fn unhex(s: &str) -> Vec<u8> {
    (0..s.len() / 2)
        .filter_map(|i| u8::from_str_radix(&s[2 * i..2 * i + 2], 16).ok())
        .collect()
}

/// Machinery failure (not a verdict).
pub fn machinery(msg: &str) -> ! {
    crate::core::elog!("MACHINERY: {msg}");
    std::process::exit(3);
}

/// Dictionary of the byte-string and string literals that occur in the source of the crates under
/// test (read from /repo's working tree at run time). A parser that special-cases a magic value can
/// only compare its input with a constant it carries, so "one input per literal in the code" closes
/// the gap that no enumeration of 9-byte fields could: field alphabets for names, tags and magic
/// numbers are extended with these values.
pub fn source_dictionary() -> &'static Vec<Vec<u8>> {
    static DICT: std::sync::OnceLock<Vec<Vec<u8>>> = std::sync::OnceLock::new();
    DICT.get_or_init(|| {
        let mut out: std::collections::BTreeSet<Vec<u8>> = std::collections::BTreeSet::new();
        let mut stack: Vec<std::path::PathBuf> = ["nexrad", "nexrad-model", "nexrad-decode", "nexrad-data"].iter().map(|c| std::path::PathBuf::from(format!("/repo/{c}/src"))).collect();
        while let Some(p) = stack.pop() {
            if p.is_dir() {
                if let Ok(rd) = std::fs::read_dir(&p) {
                    for e in rd.flatten() {
                        stack.push(e.path());
                    }
                }
            } else if p.extension().map(|e| e == "rs").unwrap_or(false) {
                if let Ok(text) = std::fs::read(&p) {
                    scan_literals(&text, &mut out);
                }
            }
        }
        let mut v: Vec<Vec<u8>> = out.into_iter().filter(|l| (2..=40).contains(&l.len())).collect();
        v.sort_by(|a, b| a.len().cmp(&b.len()).then(a.cmp(b)));
        v.truncate(1500);
        v
    })
}

fn scan_literals(t: &[u8], out: &mut std::collections::BTreeSet<Vec<u8>>) {
    let mut i = 0;
    while i < t.len() {
        // char literals that contain a quote
        if t[i] == b'\'' && i + 2 < t.len() && (t[i + 1] == b'"' && t[i + 2] == b'\'') {
            i += 3;
            continue;
        }
        if t[i] == b'\'' && i + 3 < t.len() && t[i + 1] == b'\\' && t[i + 2] == b'"' && t[i + 3] == b'\'' {
            i += 4;
            continue;
        }
        // string literals, and `code spans` of doc comments (magic values are often only documented)
        if t[i] != b'"' && t[i] != b'`' {
            i += 1;
            continue;
        }
        let quote = t[i];
        let mut j = i + 1;
        let mut lit: Vec<u8> = Vec::new();
        let mut closed = false;
        while j < t.len() {
            match t[j] {
                q if q == quote => {
                    closed = true;
                    break;
                }
                b'\n' if quote == b'`' => break,
                b'\\' if j + 1 < t.len() => {
                    j += 1;
                    match t[j] {
                        b'n' => lit.push(b'\n'),
                        b'r' => lit.push(b'\r'),
                        b't' => lit.push(b'\t'),
                        b'0' => lit.push(0),
                        b'x' if j + 2 < t.len() => {
                            let h = std::str::from_utf8(&t[j + 1..j + 3]).ok().and_then(|h| u8::from_str_radix(h, 16).ok());
                            lit.push(h.unwrap_or(b'?'));
                            j += 2;
                        }
                        c => lit.push(c),
                    }
                }
                b'\n' if lit.len() > 200 => break,
                c => lit.push(c),
            }
            j += 1;
        }
        if closed && !lit.is_empty() && lit.len() <= 64 {
            out.insert(lit.clone());
            // the pieces between format placeholders and separators are candidates too
            for piece in lit.split(|b| matches!(*b, b'{' | b'}' | b' ' | b'/' | b':' | b',')) {
                if piece.len() >= 2 {
                    out.insert(piece.to_vec());
                }
            }
        }
        i = j + 1;
    }
}

/// Environment variables as an owned dimension: every literal of the source under test that looks
/// like an environment-variable name (upper case, digits, underscores, at least five characters) is
/// set to "1" (`on`) or removed again. A library that consults `std::env` can only ask for a name
/// it carries as a constant. The harness's own variables and TZ / RUST_* are left alone.
pub fn set_source_env_vars(on: bool) -> usize {
    let mut n = 0;
    for lit in source_dictionary() {
        let Ok(name) = std::str::from_utf8(lit) else { continue };
        let shaped = name.len() >= 5 && name.bytes().all(|b| b.is_ascii_uppercase() || b.is_ascii_digit() || b == b'_') && name.bytes().next().map(|b| b.is_ascii_uppercase()).unwrap_or(false) && name.contains('_');
        if !shaped || name.starts_with("VERIF_") || name.starts_with("NEXRAD_VERIF_") || name.starts_with("RUST_") || name.starts_with("CARGO_") || name == "TZ" {
            continue;
        }
        if on {
            if std::env::var_os(name).is_none() {
                std::env::set_var(name, "1");
                n += 1;
            }
        } else if std::env::var_os(name).map(|v| v == "1").unwrap_or(false) {
            std::env::remove_var(name);
            n += 1;
        }
    }
    n
}

/// `eprintln!` that cannot panic: the harness may have replaced fd 2 by a broken pipe (see
/// `break_stderr`), and MACHINERY messages also go to stdout so that they are never lost.
#[macro_export]
macro_rules! elog {
    ($($arg:tt)*) => {{
        use std::io::Write;
        let m = format!($($arg)*);
        let _ = writeln!(std::io::stderr(), "{m}");
        if m.starts_with("MACHINERY") {
            let _ = writeln!(std::io::stdout(), "{m}");
        }
    }};
}
pub use elog;

extern "C" {
    fn pipe(fds: *mut i32) -> i32;
    fn dup(fd: i32) -> i32;
    fn dup2(old: i32, new: i32) -> i32;
    fn close(fd: i32) -> i32;
}

static SAVED_STDERR: std::sync::atomic::AtomicI32 = std::sync::atomic::AtomicI32::new(-1);

/// The standard error stream as an owned part of the environment: `on` replaces fd 2 by the write
/// end of a pipe whose read end is closed (every write fails with EPIPE; Rust ignores SIGPIPE), `off`
/// restores it. A library that prints with `eprintln!` panics in such a process (a daemon whose
/// stderr went away, a closed terminal); decoding must not depend on it.
pub fn break_stderr(on: bool) {
    use std::sync::atomic::Ordering::SeqCst;
    // SAFETY: plain fd manipulation with checked results
    unsafe {
        if on {
            if SAVED_STDERR.load(SeqCst) >= 0 {
                return;
            }
            let saved = dup(2);
            let mut fds = [0i32; 2];
            if saved < 0 || pipe(fds.as_mut_ptr()) != 0 {
                return;
            }
            close(fds[0]);
            dup2(fds[1], 2);
            close(fds[1]);
            SAVED_STDERR.store(saved, SeqCst);
        } else {
            let saved = SAVED_STDERR.swap(-1, SeqCst);
            if saved >= 0 {
                dup2(saved, 2);
                close(saved);
            }
        }
    }
}

/// Debug-formats `x` in every formatter mode a caller can select (`{:?}`, the pretty / alternate
/// form used by `{:#?}` and `dbg!`, width, precision, sign, hex flags). A hand-written `Debug` impl
/// may branch on the formatter's flags, so the mode is an input dimension of "formatting for
/// debugging". Returns the total length.
pub fn debug_all<T: std::fmt::Debug>(x: &T) -> usize {
    format!("{:?}", x).len() + format!("{:#?}", x).len() + format!("{:12?}", x).len() + format!("{:.1?}", x).len() + format!("{:+?}", x).len() + format!("{:#x?}", x).len() + format!("{:<#20.3?}", x).len()
}

/// Spawns `n` worker processes of this binary (`<prop> <tier> --worker <i> <n>`) and returns the
/// JSON each printed on its `WORKER_RESULT ` line. A worker that dies is a machinery failure.
pub fn run_workers(prop: &str, tier: Tier, n: usize) -> Vec<Value> {
    let exe = std::env::current_exe().unwrap_or_else(|e| machinery(&format!("current_exe: {e}")));
    let children: Vec<_> = (0..n)
        .map(|i| {
            std::process::Command::new(&exe)
                .args([prop, tier.name(), "--worker", &i.to_string(), &n.to_string()])
                .stdout(std::process::Stdio::piped())
                .stderr(std::process::Stdio::inherit())
                .spawn()
                .unwrap_or_else(|e| machinery(&format!("spawn worker: {e}")))
        })
        .collect();
    let mut out = Vec::new();
    for (i, c) in children.into_iter().enumerate() {
        let o = c.wait_with_output().unwrap_or_else(|e| machinery(&format!("wait worker: {e}")));
        let text = String::from_utf8_lossy(&o.stdout).to_string();
        let line = text.lines().find_map(|l| l.strip_prefix("WORKER_RESULT "));
        match line.and_then(|l| serde_json::from_str::<Value>(l).ok()) {
            Some(v) => out.push(v),
            None => machinery(&format!("worker {i} of {prop} produced no result (status {:?}); output tail: {}", o.status, text.chars().rev().take(400).collect::<String>().chars().rev().collect::<String>())),
        }
    }
    out
}

/// Runs one section of a property in a child process (`<prop> <tier> --worker 0 1`, environment
/// `VERIF_SECTION=<section>`), because what it feeds the code under test can kill a process in ways
/// `catch_unwind` cannot intercept (stack overflow, abort on allocation failure). The child prints
/// `SECTION_CASE <label>` before each case and `WORKER_RESULT <json>` at the end. Returns the
/// child's result, or Err((last case label, how the child died)).
pub fn run_isolated(prop: &str, tier: Tier, section: &str, extra_env: &[(&str, String)]) -> Result<Value, (String, String)> {
    let exe = std::env::current_exe().unwrap_or_else(|e| machinery(&format!("current_exe: {e}")));
    let mut cmd = std::process::Command::new(&exe);
    cmd.args([prop, tier.name(), "--worker", "0", "1"]).env("VERIF_SECTION", section).stdout(std::process::Stdio::piped()).stderr(std::process::Stdio::piped());
    for (k, v) in extra_env {
        cmd.env(k, v);
    }
    let o = cmd.output().unwrap_or_else(|e| machinery(&format!("spawn isolated section: {e}")));
    let text = String::from_utf8_lossy(&o.stdout).to_string();
    if let Some(v) = text.lines().find_map(|l| l.strip_prefix("WORKER_RESULT ")).and_then(|l| serde_json::from_str::<Value>(l).ok()) {
        if o.status.success() {
            return Ok(v);
        }
    }
    let last = text.lines().rev().find_map(|l| l.strip_prefix("SECTION_CASE ")).unwrap_or("<before the first case>").to_string();
    use std::os::unix::process::ExitStatusExt;
    let how = match (o.status.signal(), o.status.code()) {
        (Some(s), _) => format!("killed by signal {s}"),
        (_, Some(c)) => format!("exit status {c}"),
        _ => "unknown termination".to_string(),
    };
    let err_tail: String = String::from_utf8_lossy(&o.stderr).lines().rev().take(3).collect::<Vec<_>>().into_iter().rev().collect::<Vec<_>>().join(" | ");
    Err((last, format!("{how}; stderr: {}", err_tail.chars().take(300).collect::<String>())))
}

/// History dimension: runs `f(word)` for every word over `0..k` of length 1..=depth. Every word runs
/// on a FRESH OS thread (clean thread-locals) and its operations run back-to-back on that thread,
/// so state leaking from one call into the next (caches, scratch buffers, statics keyed by thread)
/// is observable and attributable to the word.
pub fn for_each_history(k: usize, depth: usize, f: impl Fn(&[usize]) + Sync) {
    let mut all: Vec<Vec<usize>> = Vec::new();
    for len in 1..=depth {
        for w in words(k as u64, len) {
            all.push(w.iter().map(|x| *x as usize).collect());
        }
    }
    for batch in all.chunks(32) {
        std::thread::scope(|s| {
            for w in batch {
                let f = &f;
                s.spawn(move || f(w));
            }
        });
    }
}

extern "C" {
    fn sched_setaffinity(pid: i32, cpusetsize: usize, mask: *const u64) -> i32;
    fn sched_getcpu() -> i32;
}

/// Runs `f` on a fresh thread whose affinity mask holds a single CPU, so that
/// `std::thread::available_parallelism()` and friends report 1. Returns None if the thread died or
/// the affinity could not be set (then nothing is concluded).
pub fn on_one_cpu<T: Send>(f: impl FnOnce() -> T + Send) -> Option<T> {
    std::thread::scope(|s| {
        s.spawn(move || {
            // SAFETY: plain libc calls with a valid, correctly sized mask
            let cpu = unsafe { sched_getcpu() }.max(0) as usize;
            let mut mask = [0u64; 16];
            mask[(cpu / 64) % 16] = 1u64 << (cpu % 64);
            let rc = unsafe { sched_setaffinity(0, std::mem::size_of_val(&mask), mask.as_ptr()) };
            if rc != 0 || std::thread::available_parallelism().map(|n| n.get()).unwrap_or(0) != 1 {
                return None;
            }
            Some(f())
        })
        .join()
        .ok()
        .flatten()
    })
}

/// Runs `f` on fresh threads from inside different async executors. A result is None when the call
/// panicked (the panic message is captured by the silent hook like any other).
pub fn in_async_contexts<T: Send>(f: impl Fn() -> T + Sync) -> Vec<(&'static str, Option<T>)> {
    let mut out = Vec::new();
    let f = &f;
    let run = |name: &'static str, body: &(dyn Fn() -> Option<T> + Sync)| -> (&'static str, Option<T>) { (name, std::thread::scope(|s| s.spawn(|| body()).join().ok().flatten())) };
    out.push(run("a current-thread tokio runtime (block_on)", &|| {
        let rt = tokio::runtime::Builder::new_current_thread().enable_all().build().ok()?;
        match guarded(|| rt.block_on(async { f() })) {
            Caught::Ret(v) => Some(v),
            Caught::Panic(_) => None,
        }
    }));
    out.push(run("a LocalSet on a current-thread tokio runtime", &|| {
        let rt = tokio::runtime::Builder::new_current_thread().enable_all().build().ok()?;
        let ls = tokio::task::LocalSet::new();
        match guarded(|| ls.block_on(&rt, async { f() })) {
            Caught::Ret(v) => Some(v),
            Caught::Panic(_) => None,
        }
    }));
    #[cfg(any(feature = "full", feature = "v-aws"))]
    out.push(run("a multi-thread tokio runtime (block_on)", &|| {
        let rt = tokio::runtime::Builder::new_multi_thread().worker_threads(2).enable_all().build().ok()?;
        match guarded(|| rt.block_on(async { f() })) {
            Caught::Ret(v) => Some(v),
            Caught::Panic(_) => None,
        }
    }));
    out
}

/// Generic history-independence check (differential oracle): `op(i)` is run alone on a fresh
/// thread to obtain its history-free result, then every sequence of <= depth operations is run
/// back-to-back on a fresh thread and every result must equal the history-free one. A panic inside
/// `op` must be turned into a value by the caller (use `guarded`).
pub fn history_check<R: PartialEq + Send + Sync + std::fmt::Debug>(
    ctx: &Ctx,
    what: &str,
    k: usize,
    depth: usize,
    op: impl Fn(usize) -> R + Sync,
    describe: impl Fn(usize) -> String + Sync,
) -> Stats {
    let mut base: Vec<Option<R>> = (0..k).map(|_| None).collect();
    for (i, slot) in base.iter_mut().enumerate() {
        std::thread::scope(|s| {
            let op = &op;
            let h = s.spawn(move || op(i));
            *slot = h.join().ok();
        });
    }
    // processor dimension: the same operation on a thread that may run on ONE cpu only
    // (`available_parallelism()` == 1 there, as on a 1-vCPU instance or under `taskset -c 0`)
    for (i, b) in base.iter().enumerate() {
        let r = on_one_cpu(|| op(i));
        if r.as_ref() != b.as_ref() && r.is_some() {
            ctx.fail(
                &format!("cpus:{what}:result_depends_on_processors_available"),
                || format!("{what}: {} gives {} on a thread restricted to one CPU, {} otherwise", describe(i), format!("{:?}", r).chars().take(160).collect::<String>(), format!("{:?}", b).chars().take(160).collect::<String>()),
                || json!({"op": "history", "what": what, "sequence": [i], "one_cpu": true}),
            );
        }
    }
    // stack dimension (only in the stack128 variant process): each operation on a thread with a
    // small stack; the case is announced first because a stack overflow kills the process
    if let Some(bytes) = std::env::var("VERIF_SMALL_STACK").ok().and_then(|v| v.parse::<usize>().ok()) {
        for (i, b) in base.iter().enumerate() {
            use std::io::Write;
            println!("SECTION_CASE {what}: {}", describe(i));
            let _ = std::io::stdout().flush();
            let r = std::thread::scope(|s| {
                let op = &op;
                std::thread::Builder::new().stack_size(bytes).spawn_scoped(s, move || op(i)).ok().and_then(|h| h.join().ok())
            });
            if r.as_ref() != b.as_ref() {
                ctx.fail(
                    &format!("stack:{what}:result_depends_on_the_stack_size_of_the_calling_thread"),
                    || format!("{what}: {} on a {bytes}-byte stack gives {} instead of {}", describe(i), format!("{:?}", r).chars().take(160).collect::<String>(), format!("{:?}", b).chars().take(160).collect::<String>()),
                    || json!({"op": "history", "what": what, "sequence": [i]}),
                );
            }
        }
        println!("SECTION_CASE <after the small-stack cases of {what}>");
    }
    // execution-context dimension: the same (synchronous) operation called from inside an async
    // executor: a current-thread tokio runtime (what #[tokio::test] and flavor = "current_thread"
    // give), a LocalSet on it, and (where the build has it) a multi-thread runtime
    for (i, b) in base.iter().enumerate() {
        for (cname, r) in in_async_contexts(|| op(i)) {
            if r.as_ref() != b.as_ref() {
                ctx.fail(
                    &format!("executor:{what}:result_depends_on_the_async_context_of_the_caller"),
                    || format!("{what}: {} called from {cname} gives {} instead of {}", describe(i), format!("{:?}", r).chars().take(160).collect::<String>(), format!("{:?}", b).chars().take(160).collect::<String>()),
                    || json!({"op": "history", "what": what, "sequence": [i], "context": cname}),
                );
            }
        }
    }
    let stats = Mutex::new(Stats::new());
    for_each_history(k, depth, |w| {
        let mut st = Stats::new();
        for (step, i) in w.iter().enumerate() {
            let r = op(*i);
            st.eval();
            if Some(&r) != base[*i].as_ref() {
                ctx.fail(
                    &format!("history:{what}:result_depends_on_previous_operations"),
                    || {
                        format!(
                            "{what}: operation sequence [{}] on one thread: step {step} gives a result different from the same operation on a fresh thread ({} vs {})",
                            w.iter().map(|x| describe(*x)).collect::<Vec<_>>().join(" ; "),
                            format!("{:?}", r).chars().take(160).collect::<String>(),
                            format!("{:?}", base[*i]).chars().take(160).collect::<String>()
                        )
                    },
                    || json!({"op": "history", "what": what, "sequence": w}),
                );
            }
        }
        st.count("history_sequences", 1);
        st.nontrivial(format!("hist:{what}:{:?}", w).as_bytes());
        let mut g = stats.lock().unwrap_or_else(|e| e.into_inner());
        let old = std::mem::take(&mut *g);
        *g = old.merge(st);
    });
    // cross-API interference: an unrelated operation of the library (with varied content) runs
    // first on a fresh thread, then each probe operation; process-wide state written by the former
    // must not change the latter. The number of disturbances used is bounded by a time budget for
    // expensive probes (all of them in the thorough tier); the subset is a stride through the list.
    let t0 = Instant::now();
    for i in 0..k {
        let _ = op(i);
    }
    let per_round = t0.elapsed().as_secs_f64().max(1e-6);
    let dist = crate::props::disturb::disturbances();
    let budget_s = if ctx.tier.thorough() { 120.0 } else { 1.0 };
    let n_use = ((budget_s / per_round) as usize).clamp(8, dist.len());
    let stride = (dist.len() / n_use).max(1);
    let mut used = 0u64;
    let mut st = stats.into_inner().unwrap_or_else(|e| e.into_inner());
    for (di, (label, d)) in dist.iter().enumerate() {
        if di % stride != 0 {
            continue;
        }
        used += 1;
        let results: Vec<R> = std::thread::scope(|s| {
            let op = &op;
            s.spawn(move || {
                d();
                (0..k).map(op).collect::<Vec<R>>()
            })
            .join()
            .unwrap_or_default()
        });
        for (i, r) in results.iter().enumerate() {
            st.eval();
            if Some(r) != base[i].as_ref() {
                ctx.fail(
                    &format!("interference:{what}:result_depends_on_an_unrelated_earlier_operation"),
                    || format!("{what}: after `{label}` ran in the same process, {} gives {} instead of {}", describe(i), format!("{:?}", r).chars().take(160).collect::<String>(), format!("{:?}", base[i]).chars().take(160).collect::<String>()),
                    || json!({"op": "history", "what": what, "sequence": [i], "disturbance": label}),
                );
            }
        }
    }
    st.count("cross_api_disturbances_applied", used);
    st
}

// ---------------------------------------------------------------------------------------------
// process-global configuration owned by the harness: the `log` facade and the time zone

/// A logger that formats every record (so that lazily evaluated log-macro arguments and their
/// side effects actually run) and throws the text away.
pub struct SinkLogger;

impl log::Log for SinkLogger {
    fn enabled(&self, m: &log::Metadata) -> bool {
        // only the library's own log statements (the HTTP stack's trace output is not under test)
        m.target().starts_with("nexrad")
    }
    fn log(&self, record: &log::Record) {
        use std::fmt::Write;
        if !record.target().starts_with("nexrad") {
            return;
        }
        thread_local! { static BUF: RefCell<String> = const { RefCell::new(String::new()) }; }
        BUF.with(|b| {
            if let Ok(mut b) = b.try_borrow_mut() {
                b.clear();
                let _ = write!(b, "{} {}", record.target(), record.args());
            }
        });
    }
    fn flush(&self) {}
}

static SINK: SinkLogger = SinkLogger;

/// Installs the sink logger (once) and sets the global maximum level: `trace` makes every
/// `trace!`/`debug!` in the library evaluate its arguments, `off` is the library's default state.
pub fn set_logging(trace: bool) {
    set_logging_level(if trace { log::LevelFilter::Trace } else { log::LevelFilter::Off });
}

pub fn set_logging_level(level: log::LevelFilter) {
    let _ = log::set_logger(&SINK);
    log::set_max_level(level);
}

/// The preliminary passes of a run, in order; the final (reported) pass is always `Off`. Behaviour
/// need not be monotone in the level (`if log_enabled!(Trace) {..} else { debug!(..) }`), so the
/// levels are separate points: quick = Trace and Debug (where libraries put argument-evaluating
/// statements), thorough = every level.
pub fn preliminary_log_levels(tier: Tier) -> Vec<log::LevelFilter> {
    use log::LevelFilter::*;
    if tier.thorough() { vec![Trace, Debug, Info, Warn, Error] } else { vec![Trace, Debug] }
}

/// The process runs in a non-UTC zone with daylight-saving rules (POSIX TZ string, no tz database
/// needed), so that any accidental use of local time shows: every property speaks of UTC instants.
/// 1986-07-01T00:00:00Z: the wall clock of the first (trace-logging) pass.
pub const PASS1_CLOCK_MS: i64 = 520_560_000_000;
pub const HARNESS_TZ: &str = "CST6CDT,M3.2.0,M11.1.0";
