//! Reference encoders, written from the ICD layouts in DESIGN.md Appendix A. Nothing here uses a
//! struct, table or constant of the crates under test.

use std::io::Write;

#[derive(Default, Clone)]
pub struct W(pub Vec<u8>);

impl W {
    pub fn new() -> Self {
        W(Vec::new())
    }
    pub fn u8(&mut self, v: u8) -> &mut Self {
        self.0.push(v);
        self
    }
    pub fn u16(&mut self, v: u16) -> &mut Self {
        self.0.extend_from_slice(&v.to_be_bytes());
        self
    }
    pub fn i16(&mut self, v: i16) -> &mut Self {
        self.0.extend_from_slice(&v.to_be_bytes());
        self
    }
    pub fn u32(&mut self, v: u32) -> &mut Self {
        self.0.extend_from_slice(&v.to_be_bytes());
        self
    }
    pub fn f32(&mut self, v: f32) -> &mut Self {
        self.0.extend_from_slice(&v.to_bits().to_be_bytes());
        self
    }
    pub fn bytes(&mut self, v: &[u8]) -> &mut Self {
        self.0.extend_from_slice(v);
        self
    }
    pub fn zeros(&mut self, n: usize) -> &mut Self {
        self.0.extend(std::iter::repeat(0u8).take(n));
        self
    }
    pub fn len(&self) -> usize {
        self.0.len()
    }
    pub fn is_empty(&self) -> bool {
        self.0.is_empty()
    }
}

pub fn rd(b: &[u8], off: usize, width: usize) -> u64 {
    let mut v = 0u64;
    for i in 0..width {
        v = (v << 8) | b[off + i] as u64;
    }
    v
}

pub const FRAME: usize = 2432;
pub const MSG_HEADER: usize = 28;

/// 28-byte message header (12-byte prefix + 16 bytes).
#[derive(Clone, Debug, PartialEq)]
pub struct MsgHeader {
    pub prefix: [u8; 12],
    pub size: u16,
    pub channel: u8,
    pub typ: u8,
    pub seq: u16,
    pub date: u16,
    pub time: u32,
    pub count: u16,
    pub number: u16,
}

impl MsgHeader {
    pub fn simple(typ: u8, date: u16, time: u32) -> Self {
        MsgHeader {
            prefix: [0; 12],
            size: 1208,
            channel: 8,
            typ,
            seq: 1,
            date,
            time,
            count: 1,
            number: 1,
        }
    }
    pub fn encode(&self) -> Vec<u8> {
        let mut w = W::new();
        w.bytes(&self.prefix)
            .u16(self.size)
            .u8(self.channel)
            .u8(self.typ)
            .u16(self.seq)
            .u16(self.date)
            .u32(self.time)
            .u16(self.count)
            .u16(self.number);
        w.0
    }
}

/// One fixed-length 2432-byte frame: header + body, zero padded.
pub fn fixed_frame(h: &MsgHeader, body: &[u8]) -> Vec<u8> {
    let mut v = h.encode();
    v.extend_from_slice(body);
    assert!(v.len() <= FRAME, "body too large for a frame");
    v.resize(FRAME, 0);
    v
}

// ---------------------------------------------------------------------------------------------
// type 31

#[derive(Clone, Debug, PartialEq)]
pub struct T31Header {
    pub icao: [u8; 4],
    pub time: u32,
    pub date: u16,
    pub az_num: u16,
    pub az_angle: u32, // f32 bits
    pub compression: u8,
    pub spare: u8,
    pub radial_length: u16,
    pub spacing: u8,
    pub status: u8,
    pub elev_num: u8,
    pub cut_sector: u8,
    pub elev_angle: u32, // f32 bits
    pub spot_blanking: u8,
    pub az_indexing: u8,
}

impl T31Header {
    pub fn basic(elev_num: u8, az_num: u16, date: u16, time: u32) -> Self {
        T31Header {
            icao: *b"KDMX",
            time,
            date,
            az_num,
            az_angle: ((az_num as f32) * 0.5).to_bits(),
            compression: 0,
            spare: 0,
            radial_length: 0,
            spacing: 1,
            status: 1,
            elev_num,
            cut_sector: 0,
            elev_angle: (0.5f32 * elev_num as f32).to_bits(),
            spot_blanking: 0,
            az_indexing: 0,
        }
    }
    /// 30 bytes: everything before the block count.
    pub fn encode(&self) -> Vec<u8> {
        let mut w = W::new();
        w.bytes(&self.icao)
            .u32(self.time)
            .u16(self.date)
            .u16(self.az_num)
            .u32(self.az_angle)
            .u8(self.compression)
            .u8(self.spare)
            .u16(self.radial_length)
            .u8(self.spacing)
            .u8(self.status)
            .u8(self.elev_num)
            .u8(self.cut_sector)
            .u32(self.elev_angle)
            .u8(self.spot_blanking)
            .u8(self.az_indexing);
        w.0
    }
}

/// A type-31 data block as raw bytes: 4-byte id, fixed part, gate data.
#[derive(Clone, Debug, PartialEq)]
pub struct Block {
    pub bytes: Vec<u8>,
}

pub const MOMENT_NAMES: [&[u8; 3]; 7] = [b"REF", b"VEL", b"SW ", b"ZDR", b"PHI", b"RHO", b"CFP"];

impl Block {
    pub fn name(&self) -> [u8; 3] {
        [self.bytes[1], self.bytes[2], self.bytes[3]]
    }
    /// VOL block (52 bytes) with plan-driven filler and an explicit VCP number.
    pub fn vol(vcp: u16, fill: u8) -> Block {
        let mut w = W::new();
        w.u8(b'R').bytes(b"VOL");
        w.u16(52).u8(fill.wrapping_add(1)).u8(fill.wrapping_add(2));
        w.f32(41.73 + fill as f32).f32(-93.72 - fill as f32);
        w.i16(299 + fill as i16).u16(20 + fill as u16);
        w.f32(-44.0).f32(250.0).f32(251.0).f32(0.25).f32(60.0);
        w.u16(vcp).u16(fill as u16 & 1).u16(7 + fill as u16);
        w.zeros(6);
        assert_eq!(w.len(), 52);
        Block { bytes: w.0 }
    }
    pub fn elv(fill: u8) -> Block {
        let mut w = W::new();
        w.u8(b'R').bytes(b"ELV").u16(12).i16(-12 - fill as i16).f32(-40.5 + fill as f32);
        assert_eq!(w.len(), 12);
        Block { bytes: w.0 }
    }
    pub fn rad(fill: u8) -> Block {
        let mut w = W::new();
        w.u8(b'R').bytes(b"RAD").u16(28).u16(466 + fill as u16);
        w.f32(-80.0).f32(-81.0).u16(2600 + fill as u16).u16(fill as u16);
        w.f32(-45.0).f32(-46.0);
        assert_eq!(w.len(), 28);
        Block { bytes: w.0 }
    }
    /// Generic moment block. `data` must be gates * word_size/8 bytes for a well-formed block.
    pub fn moment(name: &[u8; 3], gates: u16, word_size: u8, scale: f32, offset: f32, data: &[u8]) -> Block {
        let mut w = W::new();
        w.u8(b'D').bytes(name);
        w.u32(0).u16(gates).u16(2125).u16(250).u16(50).u16(16);
        w.u8(0).u8(word_size).f32(scale).f32(offset);
        assert_eq!(w.len(), 28);
        w.bytes(data);
        Block { bytes: w.0 }
    }
    /// Arbitrary fixed part (for value plans): id + raw body.
    pub fn raw(kind: u8, name: &[u8; 3], rest: &[u8]) -> Block {
        let mut w = W::new();
        w.u8(kind).bytes(name).bytes(rest);
        Block { bytes: w.0 }
    }
}

#[derive(Clone, Debug, PartialEq, Default)]
pub struct Layout {
    /// physical order of the blocks (indices into `blocks`); empty = identity
    pub phys: Vec<usize>,
    /// bytes of filler between (and before the first of) physical blocks
    pub gap: usize,
    /// order of the pointer table (indices into `blocks`); empty = identity
    pub ptrs: Vec<usize>,
    /// per-physical-position filler before each block (overrides `gap` when non-empty)
    pub gaps: Vec<usize>,
}

/// Encodes a type-31 message body (starting at the type-31 header). Returns bytes and the
/// pointer value of every block (indexed like `blocks`).
pub fn t31_body(h: &T31Header, blocks: &[Block], layout: &Layout) -> (Vec<u8>, Vec<u32>) {
    let n = blocks.len();
    let phys: Vec<usize> = if layout.phys.is_empty() { (0..n).collect() } else { layout.phys.clone() };
    let ptrs: Vec<usize> = if layout.ptrs.is_empty() { (0..n).collect() } else { layout.ptrs.clone() };
    let mut out = h.encode();
    out.extend_from_slice(&(n as u16).to_be_bytes());
    let table_at = out.len();
    out.resize(table_at + 4 * n, 0);
    let mut pos = vec![0u32; n];
    for (k, &bi) in phys.iter().enumerate() {
        let g = if layout.gaps.is_empty() { layout.gap } else { layout.gaps.get(k).copied().unwrap_or(0) };
        out.extend(std::iter::repeat(0xA5u8).take(g));
        pos[bi] = out.len() as u32;
        out.extend_from_slice(&blocks[bi].bytes);
    }
    for (slot, &bi) in ptrs.iter().enumerate() {
        out[table_at + 4 * slot..table_at + 4 * slot + 4].copy_from_slice(&pos[bi].to_be_bytes());
    }
    (out, pos)
}

/// A complete type-31 message: message header + body.
pub fn t31_message(mh: &MsgHeader, h: &T31Header, blocks: &[Block], layout: &Layout) -> Vec<u8> {
    let (body, _) = t31_body(h, blocks, layout);
    let mut hdr = mh.clone();
    hdr.typ = 31;
    let mut v = hdr.encode();
    v.extend_from_slice(&body);
    v
}

// ---------------------------------------------------------------------------------------------
// VCP (type 5)

#[derive(Clone, Debug, PartialEq)]
pub struct VcpCut {
    pub hw: [u16; 23],
}

impl VcpCut {
    /// elevation angle raw, channel config, waveform, super-res control; rest plan-filled.
    pub fn new(angle_raw: u16, channel: u8, waveform: u8, super_res: u8, fill: u16) -> Self {
        let mut hw = [0u16; 23];
        hw[0] = angle_raw;
        hw[1] = ((channel as u16) << 8) | waveform as u16;
        hw[2] = ((super_res as u16) << 8) | (1 + (fill & 7));
        hw[3] = 15 + fill;
        hw[4] = 0x1C70 + (fill << 3); // azimuth rate
        for (i, slot) in hw.iter_mut().enumerate().take(11).skip(5) {
            *slot = (16 + i as u16 * 8 + fill) & 0x7FFF;
        }
        hw[11] = 0x1000;
        hw[12] = 4;
        hw[13] = 40 + fill;
        hw[14] = 0;
        hw[15] = 0x5000;
        hw[16] = 5;
        hw[17] = 41 + fill;
        hw[18] = 0;
        hw[19] = 0x9000;
        hw[20] = 6;
        hw[21] = 42 + fill;
        hw[22] = 0;
        VcpCut { hw }
    }
}

pub fn vcp_body(header_hw: &[u16; 11], cuts: &[VcpCut]) -> Vec<u8> {
    let mut w = W::new();
    for h in header_hw {
        w.u16(*h);
    }
    for c in cuts {
        for h in &c.hw {
            w.u16(*h);
        }
    }
    w.0
}

pub fn vcp_header_hw(pattern: u16, declared_cuts: u16) -> [u16; 11] {
    [
        (11 + 23 * declared_cuts as u32).min(65535) as u16,
        2,
        pattern,
        declared_cuts,
        (1 << 8) | 0, // version 1, clutter group 0
        (2 << 8) | 2, // doppler resolution code 2, pulse width code 2
        0,
        0,
        0x0005,
        0x0000,
        0,
    ]
}

// ---------------------------------------------------------------------------------------------
// RDA status (type 2): 60 halfwords, index 0 = halfword 1

pub fn rda_in_domain() -> [u16; 60] {
    let mut hw = [0u16; 60];
    hw[0] = 16; // operate
    hw[1] = 2; // on-line
    hw[2] = 8; // either
    hw[3] = 2; // utility power available
    hw[4] = 700;
    hw[5] = 25;
    hw[6] = 2 | 4 | 8;
    hw[7] = 212u16;
    hw[8] = 0;
    hw[9] = 1900;
    hw[10] = 4;
    hw[11] = 2;
    hw[12] = 1;
    hw[13] = 2 | 8; // AVSET enabled by documented value, EBC
    hw[14] = 0;
    hw[15] = 0;
    hw[16] = 0;
    hw[17] = 0;
    hw[18] = 19000;
    hw[19] = 720;
    hw[20] = 19001;
    hw[21] = 721;
    hw[22] = 30;
    hw[23] = 3;
    hw[24] = 0;
    hw[25] = 0;
    hw[59] = 1;
    hw
}

pub fn rda_body(hw: &[u16; 60]) -> Vec<u8> {
    let mut w = W::new();
    for h in hw {
        w.u16(*h);
    }
    w.0
}

// ---------------------------------------------------------------------------------------------
// clutter filter map (type 15)

/// segments[s][az] = list of (op code, end range)
pub fn clutter_body(date: u16, time_min: u16, declared_segments: u16, segments: &[Vec<Vec<(u16, u16)>>]) -> Vec<u8> {
    let mut w = W::new();
    w.u16(date).u16(time_min).u16(declared_segments);
    for seg in segments {
        for az in seg {
            w.u16(az.len() as u16);
            for (op, end) in az {
                w.u16(*op).u16(*end);
            }
        }
    }
    w.0
}

// ---------------------------------------------------------------------------------------------
// Archive II container

#[derive(Clone, Debug, PartialEq)]
pub struct VolHeader {
    pub tape: [u8; 9],
    pub ext: [u8; 3],
    pub date: u32,
    pub time: u32,
    pub icao: [u8; 4],
}

impl VolHeader {
    pub fn basic() -> Self {
        VolHeader {
            tape: *b"AR2V0006.",
            ext: *b"001",
            date: 19000,
            time: 43_200_000,
            icao: *b"KDMX",
        }
    }
    pub fn encode(&self) -> Vec<u8> {
        let mut w = W::new();
        w.bytes(&self.tape).bytes(&self.ext).u32(self.date).u32(self.time).bytes(&self.icao);
        assert_eq!(w.len(), 24);
        w.0
    }
}

pub fn bz(payload: &[u8], level: u32) -> Vec<u8> {
    let mut e = bzip2::write::BzEncoder::new(Vec::new(), bzip2::Compression::new(level));
    e.write_all(payload).expect("bz write");
    e.finish().expect("bz finish")
}

/// An LDM record: 4-byte size prefix (optionally negated) + bytes.
pub fn record_raw(bytes: &[u8], negative: bool) -> Vec<u8> {
    let n = bytes.len() as i32;
    let mut v = (if negative { -n } else { n }).to_be_bytes().to_vec();
    v.extend_from_slice(bytes);
    v
}

pub fn record_bz(payload: &[u8], level: u32, negative: bool) -> Vec<u8> {
    record_raw(&bz(payload, level), negative)
}

pub fn volume(h: &VolHeader, records: &[Vec<u8>]) -> Vec<u8> {
    let mut v = h.encode();
    for r in records {
        v.extend_from_slice(r);
    }
    v
}

// ---------------------------------------------------------------------------------------------
// time reference

/// Epoch milliseconds of ICD (day count d, ms of day t): (d-1) days + t.
pub fn ref_epoch_ms(d: i64, t_ms: i64) -> i64 {
    (d - 1) * 86_400_000 + t_ms
}
