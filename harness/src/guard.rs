//! Resource guards for the totality checks (C04, C06): a counting global allocator (peak live bytes
//! per measured region, and a hard cap that parks the offending thread instead of aborting), a
//! wall-clock / RSS watchdog that turns a hang or a memory blow-up into an attributable violation,
//! and a fuel-counting reader.

use std::alloc::{GlobalAlloc, Layout, System};
use std::cell::Cell;
use std::io::{Cursor, Read, Seek, SeekFrom};
use std::sync::atomic::{AtomicBool, AtomicU64, AtomicUsize, Ordering};
use std::sync::Mutex;
use std::time::{Duration, Instant};

pub struct CountingAlloc;

thread_local! {
    static LIVE: Cell<isize> = const { Cell::new(0) };
    static PEAK: Cell<isize> = const { Cell::new(0) };
    static LARGEST: Cell<usize> = const { Cell::new(0) };
    static MEASURING: Cell<bool> = const { Cell::new(false) };
    static SLOT: Cell<usize> = const { Cell::new(usize::MAX) };
}

/// A single request above this many bytes is never served: the requesting thread is parked and the
/// watchdog reports the case (returning null would abort the whole process).
pub const HARD_CAP: usize = 3 << 30;
pub static OVERSIZE_REQUEST: AtomicUsize = AtomicUsize::new(0);
pub static OVERSIZE_SLOT: AtomicUsize = AtomicUsize::new(usize::MAX);

/// When set, every allocation with alignment 1 (byte buffers: `Vec<u8>`, `String`) is placed at an
/// ODD address. `GlobalAlloc` only promises the requested alignment, and arena / bump allocators do
/// hand out such addresses; glibc never does, so code that silently assumes word alignment of a
/// byte buffer would otherwise never be contradicted. An odd align-1 pointer identifies a block
/// allocated in this mode (the system allocator's own pointers are 16-aligned).
pub static ODD_BYTE_BUFFERS: std::sync::atomic::AtomicBool = std::sync::atomic::AtomicBool::new(false);

#[inline]
fn shifted(layout: Layout) -> Option<Layout> {
    if layout.align() == 1 && layout.size() > 0 && ODD_BYTE_BUFFERS.load(Ordering::Relaxed) {
        Layout::from_size_align(layout.size() + 1, 2).ok()
    } else {
        None
    }
}

unsafe impl GlobalAlloc for CountingAlloc {
    unsafe fn alloc(&self, layout: Layout) -> *mut u8 {
        self.track(layout.size());
        if let Some(l2) = shifted(layout) {
            let p = System.alloc(l2);
            return if p.is_null() { p } else { p.add(1) };
        }
        System.alloc(layout)
    }
    unsafe fn alloc_zeroed(&self, layout: Layout) -> *mut u8 {
        self.track(layout.size());
        if let Some(l2) = shifted(layout) {
            let p = System.alloc_zeroed(l2);
            return if p.is_null() { p } else { p.add(1) };
        }
        System.alloc_zeroed(layout)
    }
    unsafe fn dealloc(&self, ptr: *mut u8, layout: Layout) {
        let _ = MEASURING.try_with(|m| {
            if m.get() {
                let _ = LIVE.try_with(|l| l.set(l.get() - layout.size() as isize));
            }
        });
        if layout.align() == 1 && (ptr as usize) & 1 == 1 {
            return System.dealloc(ptr.sub(1), Layout::from_size_align_unchecked(layout.size() + 1, 2));
        }
        System.dealloc(ptr, layout)
    }
    unsafe fn realloc(&self, ptr: *mut u8, layout: Layout, new_size: usize) -> *mut u8 {
        if layout.align() == 1 && ((ptr as usize) & 1 == 1 || ODD_BYTE_BUFFERS.load(Ordering::Relaxed)) {
            // move by hand so that the placement rule of the current mode applies to the new block
            let new_layout = Layout::from_size_align_unchecked(new_size, 1);
            let np = self.alloc(new_layout);
            if !np.is_null() {
                std::ptr::copy_nonoverlapping(ptr, np, layout.size().min(new_size));
                self.dealloc(ptr, layout);
            }
            return np;
        }
        if new_size > layout.size() {
            self.track(new_size - layout.size());
        } else {
            let _ = MEASURING.try_with(|m| {
                if m.get() {
                    let _ = LIVE.try_with(|l| l.set(l.get() - (layout.size() - new_size) as isize));
                }
            });
        }
        System.realloc(ptr, layout, new_size)
    }
}

impl CountingAlloc {
    #[inline]
    fn track(&self, size: usize) {
        let measuring = MEASURING.try_with(|m| m.get()).unwrap_or(false);
        if measuring {
            let _ = LIVE.try_with(|l| {
                let v = l.get() + size as isize;
                l.set(v);
                let _ = PEAK.try_with(|p| {
                    if v > p.get() {
                        p.set(v)
                    }
                });
            });
            let _ = LARGEST.try_with(|g| {
                if size > g.get() {
                    g.set(size)
                }
            });
            if size > HARD_CAP {
                OVERSIZE_SLOT.store(SLOT.try_with(|s| s.get()).unwrap_or(usize::MAX), Ordering::SeqCst);
                OVERSIZE_REQUEST.store(size, Ordering::SeqCst);
                loop {
                    std::thread::park_timeout(Duration::from_secs(3600));
                }
            }
        }
    }
}

#[derive(Clone, Copy, Debug, Default)]
pub struct Mem {
    pub peak: usize,
    pub largest: usize,
}

/// Runs `f` while measuring this thread's allocations.
pub fn measure<T>(f: impl FnOnce() -> T) -> (T, Mem) {
    LIVE.with(|l| l.set(0));
    PEAK.with(|p| p.set(0));
    LARGEST.with(|g| g.set(0));
    MEASURING.with(|m| m.set(true));
    let r = f();
    MEASURING.with(|m| m.set(false));
    let mem = Mem { peak: PEAK.with(|p| p.get()).max(0) as usize, largest: LARGEST.with(|g| g.get()) };
    (r, mem)
}

// ---------------------------------------------------------------------------------------------
// watchdog

#[derive(Clone, Copy, Debug, Default)]
pub struct CaseId {
    pub a: u64,
    pub b: u64,
    pub c: u64,
}

struct Slot {
    started: Option<Instant>,
    id: CaseId,
}

static NEXT_SLOT: AtomicUsize = AtomicUsize::new(0);
static SLOTS: Mutex<Vec<Slot>> = Mutex::new(Vec::new());
static WATCHDOG_ON: AtomicBool = AtomicBool::new(false);
pub static CASES_STARTED: AtomicU64 = AtomicU64::new(0);

fn my_slot() -> usize {
    SLOT.with(|s| {
        if s.get() == usize::MAX {
            let i = NEXT_SLOT.fetch_add(1, Ordering::SeqCst);
            let mut v = SLOTS.lock().unwrap_or_else(|e| e.into_inner());
            while v.len() <= i {
                v.push(Slot { started: None, id: CaseId::default() });
            }
            s.set(i);
        }
        s.get()
    })
}

pub fn begin_case(id: CaseId) {
    let i = my_slot();
    let mut v = SLOTS.lock().unwrap_or_else(|e| e.into_inner());
    v[i].started = Some(Instant::now());
    v[i].id = id;
    CASES_STARTED.fetch_add(1, Ordering::Relaxed);
}

pub fn end_case() {
    let i = my_slot();
    let mut v = SLOTS.lock().unwrap_or_else(|e| e.into_inner());
    v[i].started = None;
}

fn rss_bytes() -> u64 {
    std::fs::read_to_string("/proc/self/statm")
        .ok()
        .and_then(|s| s.split_whitespace().nth(1).and_then(|x| x.parse::<u64>().ok()))
        .map(|pages| pages * 4096)
        .unwrap_or(0)
}

/// Starts the watchdog thread. `on_trip(kind, case)` must report the violation and never return
/// control to the stuck computation (it is followed by `process::exit(1)`).
pub fn start_watchdog(case_limit: Duration, rss_limit: u64, on_trip: impl Fn(&str, Option<CaseId>, String) + Send + 'static) {
    if WATCHDOG_ON.swap(true, Ordering::SeqCst) {
        return;
    }
    std::thread::spawn(move || loop {
        std::thread::sleep(Duration::from_millis(100));
        let over = OVERSIZE_REQUEST.load(Ordering::SeqCst);
        if over != 0 {
            let slot = OVERSIZE_SLOT.load(Ordering::SeqCst);
            let id = SLOTS.lock().ok().and_then(|v| v.get(slot).map(|s| s.id));
            on_trip("oversize_allocation", id, format!("single allocation request of {over} bytes"));
            std::process::exit(1);
        }
        let rss = rss_bytes();
        let mut stuck: Option<(CaseId, Duration)> = None;
        let mut longest: Option<(CaseId, Duration)> = None;
        if let Ok(v) = SLOTS.lock() {
            for s in v.iter() {
                if let Some(t) = s.started {
                    let e = t.elapsed();
                    if e > case_limit {
                        stuck = Some((s.id, e));
                    }
                    if longest.map(|l| e > l.1).unwrap_or(true) {
                        longest = Some((s.id, e));
                    }
                }
            }
        }
        if let Some((id, e)) = stuck {
            on_trip("non_termination", Some(id), format!("case running for {:.1}s (limit {:.0}s)", e.as_secs_f64(), case_limit.as_secs_f64()));
            std::process::exit(1);
        }
        if rss > rss_limit {
            on_trip("memory_blowup", longest.map(|l| l.0), format!("process RSS {rss} bytes exceeds {rss_limit}"));
            std::process::exit(1);
        }
    });
}

// ---------------------------------------------------------------------------------------------
// fuel-counting reader

pub struct FuelReader {
    inner: Cursor<Vec<u8>>,
    fuel: u64,
    pub exhausted: bool,
}

impl FuelReader {
    pub fn new(data: Vec<u8>) -> Self {
        let fuel = 64 + 8 * data.len() as u64;
        FuelReader { inner: Cursor::new(data), fuel, exhausted: false }
    }
    fn spend(&mut self) -> std::io::Result<()> {
        if self.fuel == 0 {
            self.exhausted = true;
            return Err(std::io::Error::other("fuel exhausted"));
        }
        self.fuel -= 1;
        Ok(())
    }
}

impl Read for FuelReader {
    fn read(&mut self, buf: &mut [u8]) -> std::io::Result<usize> {
        self.spend()?;
        self.inner.read(buf)
    }
}

impl Seek for FuelReader {
    fn seek(&mut self, pos: SeekFrom) -> std::io::Result<u64> {
        self.spend()?;
        self.inner.seek(pos)
    }
}

// ---------------------------------------------------------------------------------------------
// short-read reader: an environment whose `read` answers are owned by the harness

/// A reader over `data` whose `read` never crosses one of the `boundaries` (absolute offsets) and
/// never returns more than `max_chunk` bytes: a legitimate `Read` implementation (short reads are
/// allowed by the trait contract) such as a socket, a pipe or a BufReader whose buffer ends inside
/// a message.
pub struct SplitReader {
    data: Vec<u8>,
    pos: usize,
    boundaries: Vec<usize>,
    max_chunk: usize,
    pub reads: usize,
    /// a scheduling point owned by the harness: what happens when read call number `.0` is made
    pub gate: Option<(usize, Gate)>,
    /// stream position of the first byte: the reader behaves like a window of a much larger
    /// (sparse) stream, so positions reported by `stream_position` / accepted by `seek` are
    /// `base + offset`. A decoder must not care where in a stream its message starts.
    pub base: u64,
    /// read calls (1-based) answered with `ErrorKind::Interrupted` before any data is returned:
    /// the retryable transient error of the `Read` contract (EINTR on files, pipes, sockets)
    pub interrupts: Vec<usize>,
    pub interrupt_every_other: bool,
}

/// What a gated reader does at its scheduling point.
pub enum Gate {
    /// tell the scheduler this thread is parked inside its reader, then wait to be resumed
    Park { parked: std::sync::mpsc::SyncSender<()>, resume: std::sync::mpsc::Receiver<()> },
    /// the reader itself fails by panicking (a faulty `Read` implementation of another caller)
    Panic,
    /// the reader calls back into the library on the same thread before answering (a look-ahead,
    /// validating or re-framing reader built on the same decoder); the callback is `REENTER`
    Reenter,
}

thread_local! {
    /// what a `Gate::Reenter` reader runs inside its read call (set and cleared by `two_actor_check`)
    static REENTER: std::cell::Cell<Option<*const (dyn Fn() + 'static)>> = const { std::cell::Cell::new(None) };
}

impl SplitReader {
    pub fn new(data: Vec<u8>, boundaries: Vec<usize>, max_chunk: usize) -> Self {
        SplitReader { data, pos: 0, boundaries, max_chunk: max_chunk.max(1), reads: 0, gate: None, base: 0, interrupts: vec![], interrupt_every_other: false }
    }
    pub fn gated(data: Vec<u8>, at_read: usize, gate: Gate) -> Self {
        SplitReader { data, pos: 0, boundaries: vec![], max_chunk: usize::MAX, reads: 0, gate: Some((at_read, gate)), base: 0, interrupts: vec![], interrupt_every_other: false }
    }
}

impl Read for SplitReader {
    fn read(&mut self, buf: &mut [u8]) -> std::io::Result<usize> {
        self.reads += 1;
        if self.gate.as_ref().map(|g| g.0 == self.reads).unwrap_or(false) {
            match self.gate.take() {
                Some((_, Gate::Park { parked, resume })) => {
                    let _ = parked.send(());
                    let _ = resume.recv();
                }
                Some((_, Gate::Panic)) => panic!("harness: injected reader panic at read call {}", self.reads),
                Some((_, Gate::Reenter)) => {
                    if let Some(p) = REENTER.with(|r| r.get()) {
                        // SAFETY: the pointer is set by two_actor_check for the duration of the
                        // outer decode call only and points to a closure that outlives it
                        unsafe { (*p)() }
                    }
                }
                None => {}
            }
        }
        if self.reads > 64 + 16 * self.data.len() {
            return Err(std::io::Error::other("fuel exhausted"));
        }
        if self.interrupts.contains(&self.reads) || (self.interrupt_every_other && self.reads % 2 == 1) {
            return Err(std::io::Error::new(std::io::ErrorKind::Interrupted, "harness: interrupted, retry"));
        }
        if self.pos >= self.data.len() || buf.is_empty() {
            return Ok(0);
        }
        let mut n = buf.len().min(self.data.len() - self.pos).min(self.max_chunk);
        if let Some(b) = self.boundaries.iter().find(|b| **b > self.pos) {
            n = n.min(b - self.pos);
        }
        buf[..n].copy_from_slice(&self.data[self.pos..self.pos + n]);
        self.pos += n;
        Ok(n)
    }
}

impl Seek for SplitReader {
    fn seek(&mut self, pos: SeekFrom) -> std::io::Result<u64> {
        let new = match pos {
            SeekFrom::Start(p) => p as i128 - self.base as i128,
            SeekFrom::Current(d) => self.pos as i128 + d as i128,
            SeekFrom::End(d) => self.data.len() as i128 + d as i128,
        };
        if new < 0 {
            return Err(std::io::Error::new(std::io::ErrorKind::InvalidInput, "seek before the start of the window"));
        }
        self.pos = (new as u128).min(usize::MAX as u128 / 2) as usize;
        Ok(self.base + self.pos as u64)
    }
}

/// Every reader shape of the short-read family for an input of `len` bytes: a single boundary at
/// every offset (stride for long inputs), and fixed chunk sizes.
pub fn reader_shapes(len: usize, full: bool) -> Vec<(Vec<usize>, usize)> {
    let mut v: Vec<(Vec<usize>, usize)> = Vec::new();
    let stride = if full || len <= 400 { 1 } else { (len / 200).max(1) };
    let mut p = 1;
    while p < len {
        v.push((vec![p], usize::MAX));
        p += if p < 64 || p + 64 > len { 1 } else { stride };
    }
    for c in [1usize, 2, 3, 5, 7, 13, 64, 1000, 8192] {
        v.push((vec![], c));
    }
    // BufReader-like: boundaries at multiples of 8192 / 65536 shifted by a few offsets
    for off in [0usize, 1, 100, 2431] {
        v.push(((1..40).map(|k| k * 8192 - off.min(k * 8192 - 1)).collect(), usize::MAX));
    }
    v
}

/// Runs `decode` over every reader shape and requires the same result as with an unrestricted
/// reader. Returns the number of shapes tried.
pub fn short_read_check<T: PartialEq>(
    ctx: &crate::core::Ctx,
    what: &str,
    bytes: &[u8],
    full: bool,
    decode: impl Fn(&mut SplitReader) -> Option<T>,
    witness: impl Fn(&(Vec<usize>, usize)) -> serde_json::Value,
) -> u64 {
    use crate::core::{guarded, Caught};
    let base = match guarded(|| decode(&mut SplitReader::new(bytes.to_vec(), vec![], usize::MAX))) {
        Caught::Ret(b) => b,
        Caught::Panic(_) => return 0, // reported by the main checks
    };
    let mut n = 0;
    for shape in reader_shapes(bytes.len(), full) {
        n += 1;
        let r = guarded(|| decode(&mut SplitReader::new(bytes.to_vec(), shape.0.clone(), shape.1)));
        match r {
            Caught::Ret(v) if v == base => {}
            Caught::Ret(v) => {
                let kind = if v.is_none() { "well_formed_input_rejected" } else if base.is_none() { "truncated_input_accepted" } else { "different_value" };
                ctx.fail(
                    &format!("short_reads:{what}:{kind}"),
                    || format!("{what}: a reader that returns short reads (boundaries {:?}, max chunk {}) changes the result of decoding {} bytes", &shape.0[..shape.0.len().min(4)], shape.1, bytes.len()),
                    || witness(&shape),
                );
            }
            Caught::Panic(p) => ctx.fail(&format!("short_reads:{what}:panic"), || p.clone(), || witness(&shape)),
        }
    }
    // transient, retryable errors: one `Interrupted` before read call k for every k of the solo
    // run (all of them up to 200, then a stride), and every other call interrupted
    let solo_reads = {
        let mut r = SplitReader::new(bytes.to_vec(), vec![], usize::MAX);
        let _ = guarded(|| decode(&mut r));
        r.reads
    };
    let mut ks: Vec<(Vec<usize>, bool)> = Vec::new();
    let stride = if full || solo_reads <= 200 { 1 } else { solo_reads / 100 };
    let mut k = 1;
    while k <= solo_reads + 1 {
        ks.push((vec![k], false));
        k += if k < 100 { 1 } else { stride.max(1) };
    }
    ks.push((vec![], true));
    ks.push((vec![1, 2, 3], false));
    for (ints, every_other) in ks {
        n += 1;
        let r = guarded(|| {
            let mut rd = SplitReader::new(bytes.to_vec(), vec![], if every_other { 7 } else { usize::MAX });
            rd.interrupts = ints.clone();
            rd.interrupt_every_other = every_other;
            decode(&mut rd)
        });
        if !matches!(&r, Caught::Ret(v) if *v == base) {
            let kind = match &r {
                Caught::Panic(_) => "panic",
                Caught::Ret(None) => "well_formed_input_rejected",
                Caught::Ret(Some(_)) => "different_value",
            };
            ctx.fail(
                &format!("interrupted_reads:{what}:{kind}"),
                || format!("{what}: a reader that answers read call(s) {:?}{} with ErrorKind::Interrupted (retryable by the Read contract) changes the result of decoding {} bytes", ints, if every_other { " and every other call" } else { "" }, bytes.len()),
                || witness(&(vec![], usize::MAX)),
            );
        }
    }
    // position of the message inside a larger stream: the same bytes behind stream positions
    // around 2^31, 2^32 and 2^40
    let len = bytes.len() as u64;
    for base_pos in [1u64, (1 << 31) - 17, (1u64 << 31) + 5, (1u64 << 32) - len / 2 - 1, (1u64 << 32) - len.min(1 << 31), 1u64 << 32, (1u64 << 32) + 28, 5u64 << 32, 1u64 << 40, (1u64 << 63) - len - 9] {
        n += 1;
        let r = guarded(|| {
            let mut rd = SplitReader::new(bytes.to_vec(), vec![], usize::MAX);
            rd.base = base_pos;
            decode(&mut rd)
        });
        if !matches!(&r, Caught::Ret(v) if *v == base) {
            let kind = match &r {
                Caught::Panic(_) => "panic",
                Caught::Ret(None) => "well_formed_input_rejected",
                Caught::Ret(Some(_)) => "different_value",
            };
            ctx.fail(
                &format!("stream_position:{what}:{kind}"),
                || format!("{what}: the same {} bytes decode differently when they start at stream position {base_pos} of a seekable stream instead of 0{}", bytes.len(), if let Caught::Panic(p) = &r { format!(": {p}") } else { String::new() }),
                || witness(&(vec![], usize::MAX)),
            );
        }
    }
    n
}



/// Two-actor interleavings at the reader seam (preemption bound 1, the scheduling points being the
/// `read` calls the decoder makes on the caller's reader).
///
/// Schedule P(k): actor A decodes `bytes` from a reader that parks inside read call k; while A is
/// parked, actor B decodes the same bytes from an ordinary reader on another thread to completion;
/// A is resumed. Both must return what a solo decode returns, and B must finish while A is parked
/// (a slow socket in one caller must not stall an in-memory decode in another).
/// Schedule F(k): A's reader panics inside read call k (A unwinds); afterwards B decodes on a fresh
/// thread and must return the solo result.
/// k ranges over every read call of the solo run (a prefix and a stride beyond `max_points`).
/// Returns the number of schedules run.
pub fn two_actor_check<T: PartialEq + Send + std::fmt::Debug>(
    ctx: &crate::core::Ctx,
    what: &str,
    bytes: &[u8],
    max_points: usize,
    decode: impl Fn(&mut SplitReader) -> Option<T> + Sync,
    witness: impl Fn(&str, usize) -> serde_json::Value,
) -> u64 {
    use crate::core::{guarded, Caught};
    use std::sync::mpsc::{channel, sync_channel, RecvTimeoutError};
    use std::time::Duration;
    const DEADLINE: Duration = Duration::from_secs(20);
    let mut solo_reader = SplitReader::new(bytes.to_vec(), vec![], usize::MAX);
    let base = match guarded(|| decode(&mut solo_reader)) {
        Caught::Ret(b) => b,
        Caught::Panic(_) => return 0, // reported by the main checks
    };
    let reads = solo_reader.reads;
    let mut points: Vec<usize> = (1..=reads.min(max_points)).collect();
    if reads > max_points {
        let stride = ((reads - max_points) / max_points.max(1)).max(1);
        let mut k = max_points + stride;
        while k <= reads {
            points.push(k);
            k += stride;
        }
        points.push(reads);
        points.dedup();
    }
    let mut n = 0u64;
    let mut blocked_reported = false;
    let decode = &decode;
    // a schedule that never completes (a lock taken twice on one thread, two threads waiting for
    // each other) must end in a verdict, not in a hung check: a monitor thread watches a heartbeat
    let beat = std::sync::Arc::new(std::sync::atomic::AtomicU64::new(0));
    let done = std::sync::Arc::new(std::sync::atomic::AtomicBool::new(false));
    {
        let (beat, done) = (beat.clone(), done.clone());
        let ctx_addr = ctx as *const crate::core::Ctx as usize;
        let what_s = what.to_string();
        let wit = witness("stuck", 0);
        std::thread::spawn(move || {
            let mut last = (0u64, std::time::Instant::now());
            loop {
                std::thread::sleep(Duration::from_millis(500));
                if done.load(Ordering::SeqCst) {
                    return;
                }
                let b = beat.load(Ordering::SeqCst);
                if b != last.0 {
                    last = (b, std::time::Instant::now());
                } else if last.1.elapsed() > Duration::from_secs(60) {
                    // SAFETY: every Ctx is leaked for the life of the process (main.rs)
                    let ctx = unsafe { &*(ctx_addr as *const crate::core::Ctx) };
                    let step = b;
                    ctx.fail(
                        &format!("interleaving:{what_s}:schedule_never_completes"),
                        || format!("{what_s}: schedule step {step} (two decodes interleaved at the reader seam, or a decode re-entered from inside a read call) made no progress for 60 s: the threads wait for each other or for themselves"),
                        || wit.clone(),
                    );
                    // (printing can fail if the parent is already gone; the process must end regardless)
                    let code = std::panic::catch_unwind(std::panic::AssertUnwindSafe(|| ctx.finish("other", serde_json::json!({"evaluations": step, "distinct_nontrivial": 0, "rule": "aborted: an interleaving schedule never completed", "samples": []}), vec![]))).unwrap_or(1);
                    std::process::exit(if crate::core::variant_name().is_some() { 0 } else { code });
                }
            }
        });
    }
    for &k in &points {
        beat.fetch_add(1, Ordering::SeqCst);
        // ---- P(k)
        n += 1;
        let (a_res, b_res, blocked) = std::thread::scope(|s| {
            let (ptx, prx) = sync_channel::<()>(1);
            let (rtx, rrx) = channel::<()>();
            let ha = s.spawn(move || guarded(|| decode(&mut SplitReader::gated(bytes.to_vec(), k, Gate::Park { parked: ptx, resume: rrx }))));
            // parked, or A finished without reaching read k (the sender is dropped with the reader)
            match prx.recv_timeout(DEADLINE) {
                Ok(()) | Err(RecvTimeoutError::Disconnected) => {}
                Err(RecvTimeoutError::Timeout) => crate::core::machinery("two_actor_check: actor A neither parked nor finished"),
            }
            let (btx, brx) = channel();
            let hb = s.spawn(move || {
                let r = guarded(|| decode(&mut SplitReader::new(bytes.to_vec(), vec![], usize::MAX)));
                let _ = btx.send(());
                r
            });
            let blocked = if blocked_reported { let _ = brx.recv(); false } else { brx.recv_timeout(DEADLINE).is_err() };
            let _ = rtx.send(());
            let a = ha.join().unwrap_or_else(|_| crate::core::machinery("two_actor_check: actor A thread died"));
            let b = hb.join().unwrap_or_else(|_| crate::core::machinery("two_actor_check: actor B thread died"));
            (a, b, blocked)
        });
        if blocked && !blocked_reported {
            blocked_reported = true;
            ctx.fail(
                &format!("interleaving:{what}:blocked_while_another_decode_waits_on_its_reader"),
                || format!("{what}: while one thread's decode was parked inside read call {k} of its own reader, a decode of a complete in-memory input on another thread did not return within {DEADLINE:?}"),
                || witness("park", k),
            );
        }
        for (who, r) in [("parked", &a_res), ("other", &b_res)] {
            match r {
                Caught::Ret(v) if *v == base => {}
                other => ctx.fail(
                    &format!("interleaving:{what}:{who}_thread_result_differs_from_solo"),
                    || format!("{what}: thread A parked in read call {k} while thread B decoded; {who} thread returned {:?}, a solo decode returns {:?}", summarize(other), summarize_opt(&base)),
                    || witness("park", k),
                ),
            }
        }
        beat.fetch_add(1, Ordering::SeqCst);
        // ---- N(k): the reader re-enters the decoder (same bytes, fresh reader) inside read call k
        n += 1;
        let nested_ok = std::cell::Cell::new(true);
        let nested = || {
            let r = decode(&mut SplitReader::new(bytes.to_vec(), vec![], usize::MAX));
            if r != base {
                nested_ok.set(false);
            }
        };
        let nested_dyn: &dyn Fn() = &nested;
        // SAFETY: lifetime erased for the thread-local; cleared before `nested` goes out of scope
        let ptr: *const (dyn Fn() + 'static) = unsafe { std::mem::transmute::<*const (dyn Fn() + '_), *const (dyn Fn() + 'static)>(nested_dyn as *const _) };
        REENTER.with(|r| r.set(Some(ptr)));
        let outer = guarded(|| decode(&mut SplitReader::gated(bytes.to_vec(), k, Gate::Reenter)));
        REENTER.with(|r| r.set(None));
        let outer_ok = matches!(&outer, Caught::Ret(v) if *v == base);
        if !outer_ok || !nested_ok.get() {
            ctx.fail(
                &format!("interleaving:{what}:reentrant_decode_from_inside_a_read_call"),
                || format!("{what}: the reader ran a complete decode of the same bytes inside read call {k} of an outer decode; outer result {}, nested result {}", summarize(&outer), if nested_ok.get() { "as solo" } else { "differs from solo" }),
                || witness("reenter", k),
            );
        }
        beat.fetch_add(1, Ordering::SeqCst);
        // ---- F(k)
        n += 1;
        let after = std::thread::scope(|s| {
            let ha = s.spawn(move || guarded(|| decode(&mut SplitReader::gated(bytes.to_vec(), k, Gate::Panic))));
            let _ = ha.join();
            let hb = s.spawn(move || guarded(|| decode(&mut SplitReader::new(bytes.to_vec(), vec![], usize::MAX))));
            hb.join().unwrap_or_else(|_| crate::core::machinery("two_actor_check: actor B thread died"))
        });
        match &after {
            Caught::Ret(v) if *v == base => {}
            other => ctx.fail(
                &format!("interleaving:{what}:decode_differs_after_another_threads_reader_panicked"),
                || format!("{what}: after another thread's reader panicked inside read call {k} of its decode, a decode of the same well-formed input returned {:?}", summarize(other)),
                || witness("panic", k),
            ),
        }
    }
    done.store(true, Ordering::SeqCst);
    n
}

fn summarize<T: std::fmt::Debug>(c: &crate::core::Caught<Option<T>>) -> String {
    let s = match c {
        crate::core::Caught::Ret(Some(v)) => format!("Some({v:?})"),
        crate::core::Caught::Ret(None) => "an error".to_string(),
        crate::core::Caught::Panic(p) => format!("panic: {p}"),
    };
    s.chars().take(240).collect()
}

fn summarize_opt<T: std::fmt::Debug>(v: &Option<T>) -> String {
    match v {
        Some(v) => format!("Some({v:?})").chars().take(240).collect(),
        None => "an error".to_string(),
    }
}
