//! C07 — radial model mapping and gate-value conversion are exact.
//! E3; exhaustive on raw gate values (all 256, and all 65 536 for 16-bit moments).

use crate::core::*;
use crate::enc::*;
use crate::t31::*;
use nexrad_decode::messages::digital_radar_data as drd;
use nexrad_model::data::{MomentData, MomentValue, Radial, RadialStatus};
use rayon::prelude::*;
use serde_json::{json, Value};

fn decode(body: Vec<u8>) -> Caught<Result<drd::Message, String>> {
    guarded(move || drd::decode_digital_radar_data(&mut std::io::Cursor::new(body)).map_err(|e| format!("{:?}", e)))
}

#[derive(Clone, Copy, Debug, PartialEq)]
enum V {
    Below,
    Folded,
    Val(u32), // f32 bits
}

fn ref_value(raw: u32, scale: f32, offset: f32) -> Option<V> {
    if scale == 0.0 {
        if raw <= 1 {
            return None; // ambiguous in the statement: sentinel or raw value
        }
        return Some(V::Val((raw as f32).to_bits()));
    }
    Some(match raw {
        0 => V::Below,
        1 => V::Folded,
        _ => V::Val(((raw as f32 - offset) / scale).to_bits()),
    })
}

fn model_v(v: &MomentValue) -> V {
    match v {
        MomentValue::BelowThreshold => V::Below,
        MomentValue::RangeFolded => V::Folded,
        MomentValue::Value(x) => V::Val(x.to_bits()),
    }
}

fn decode_v(v: &drd::ScaledMomentValue) -> V {
    match v {
        drd::ScaledMomentValue::BelowThreshold => V::Below,
        drd::ScaledMomentValue::RangeFolded => V::Folded,
        drd::ScaledMomentValue::Value(x) => V::Val(x.to_bits()),
    }
}

fn radial_moment(r: &Radial, kind: usize) -> Option<&MomentData> {
    match kind {
        3 => r.reflectivity(),
        4 => r.velocity(),
        5 => r.spectrum_width(),
        6 => r.differential_reflectivity(),
        7 => r.differential_phase(),
        8 => r.correlation_coefficient(),
        _ => r.specific_differential_phase(),
    }
}

/// Gate-value case: one moment of `kind` with word size `ws`, raw values `raws`, (scale, offset).
#[derive(Clone, Debug)]
struct GateCase {
    kind: usize,
    ws: u8,
    raws: Vec<u32>,
    scale: f32,
    offset: f32,
}

impl GateCase {
    fn json(&self) -> Value {
        json!({"op": "gates", "kind": self.kind, "ws": self.ws, "raws": self.raws, "scale_bits": self.scale.to_bits(), "offset_bits": self.offset.to_bits()})
    }
}

fn check_gates(ctx: &Ctx, c: &GateCase, st: &mut Stats) {
    let mut data = Vec::new();
    for r in &c.raws {
        if c.ws == 16 {
            data.extend_from_slice(&(*r as u16).to_be_bytes());
        } else {
            data.push(*r as u8);
        }
    }
    let blk = Block::moment(KIND_NAMES[c.kind], c.raws.len() as u16, c.ws, c.scale, c.offset, &data);
    let (body, _) = t31_body(&T31Header::basic(3, 7, 19000, 1000), &[blk], &Layout::default());
    st.eval();
    let wit = || c.json();
    let cls = format!("ws={}", c.ws);
    let m = match decode(body) {
        Caught::Ret(Ok(m)) => m,
        other => {
            ctx.fail(&format!("gates:decode_failed:{cls}"), || format!("{:?}", other.ret()), wit);
            return;
        }
    };
    let Some(g) = moment_slot(&m, c.kind) else {
        ctx.fail(&format!("gates:moment_absent_after_decode:{cls}"), || format!("{:?}", c.kind), wit);
        return;
    };
    let dv = guarded(|| g.decoded_values());
    let r1 = guarded(|| m.radial().map_err(|e| format!("{:?}", e)));
    let m2 = m.clone();
    let r2 = guarded(move || m2.into_radial().map_err(|e| format!("{:?}", e)));
    let (dv, r1, r2) = match (dv, r1, r2) {
        (Caught::Ret(a), Caught::Ret(Ok(b)), Caught::Ret(Ok(c2))) => (a, b, c2),
        (a, b, c2) => {
            ctx.fail(&format!("gates:conversion_failed:{cls}"), || format!("decoded_values panic={} radial={:?} into_radial={:?}", a.is_panic(), b.ret().map(|x| x.is_ok()), c2.ret().map(|x| x.is_ok())), wit);
            return;
        }
    };
    if r1 != r2 {
        ctx.fail(&format!("gates:radial_ne_into_radial:{cls}"), || "borrowing and consuming conversions differ".into(), wit);
    }
    let Some(md) = radial_moment(&r1, c.kind) else {
        ctx.fail(&format!("gates:model_moment_absent:{cls}"), || kind_label(c.kind).into(), wit);
        return;
    };
    for k in 3..10 {
        if k != c.kind && radial_moment(&r1, k).is_some() {
            ctx.fail(&format!("gates:absent_moment_present_in_model:{}", kind_label(k)), || format!("only {} was encoded", kind_label(c.kind)), wit);
        }
    }
    let mv = match guarded(|| md.values()) {
        Caught::Ret(v) => v,
        Caught::Panic(p) => {
            ctx.fail(&format!("gates:model_values_panic:{cls}"), || p.clone(), wit);
            return;
        }
    };
    if dv.len() != c.raws.len() {
        ctx.fail(&format!("gates:decode_level_value_count:{cls}"), || format!("{} values for {} gates", dv.len(), c.raws.len()), wit);
    }
    if mv.len() != c.raws.len() {
        ctx.fail(&format!("gates:model_level_value_count:{cls}"), || format!("{} values for {} gates", mv.len(), c.raws.len()), wit);
    }
    let dvv: Vec<V> = dv.iter().map(decode_v).collect();
    let mvv: Vec<V> = mv.iter().map(model_v).collect();
    if dvv != mvv {
        ctx.fail(&format!("gates:decode_level_ne_model_level:{cls}"), || format!("decode {:?} model {:?}", &dvv[..dvv.len().min(6)], &mvv[..mvv.len().min(6)]), wit);
    }
    if dv.len() == c.raws.len() && mv.len() == c.raws.len() {
        for (i, raw) in c.raws.iter().enumerate() {
            if let Some(e) = ref_value(*raw, c.scale, c.offset) {
                if dvv[i] != e {
                    let kind = if *raw <= 1 { "sentinel" } else if c.scale == 0.0 { "scale0" } else { "scaled" };
                    ctx.fail(&format!("gates:decode_level_value:{kind}:{cls}"), || format!("raw {raw} scale {} offset {}: got {:?} expected {:?}", c.scale, c.offset, dvv[i], e), wit);
                    break;
                }
                if mvv[i] != e {
                    let kind = if *raw <= 1 { "sentinel" } else if c.scale == 0.0 { "scale0" } else { "scaled" };
                    ctx.fail(&format!("gates:model_level_value:{kind}:{cls}"), || format!("raw {raw} scale {} offset {}: got {:?} expected {:?}", c.scale, c.offset, mvv[i], e), wit);
                    break;
                }
            }
        }
    }
    st.outcome("gates_checked");
}

/// Header mapping case.
#[derive(Clone, Debug)]
struct HeaderCase {
    status: u8,
    spacing: u8,
    az_num: u16,
    elev_num: u8,
    date: u16,
    time: u32,
    az_angle: f32,
    elev_angle: f32,
    moments: u8, // bitmask over kinds 3..=9
    gates: u16,
}

impl HeaderCase {
    fn json(&self) -> Value {
        json!({"op": "header", "status": self.status, "spacing": self.spacing, "az_num": self.az_num, "elev_num": self.elev_num, "date": self.date,
            "time": self.time, "az_angle_bits": self.az_angle.to_bits(), "elev_angle_bits": self.elev_angle.to_bits(), "moments": self.moments, "gates": self.gates})
    }
}

fn check_header(ctx: &Ctx, c: &HeaderCase, st: &mut Stats) {
    let mut h = T31Header::basic(c.elev_num, c.az_num, c.date, c.time);
    h.status = c.status;
    h.spacing = c.spacing;
    h.az_angle = c.az_angle.to_bits();
    h.elev_angle = c.elev_angle.to_bits();
    let mut blocks = vec![Block::vol(212, 1), Block::elv(1), Block::rad(1)];
    let kinds: Vec<usize> = (3..10).filter(|k| c.moments & (1 << (k - 3)) != 0).collect();
    for &k in &kinds {
        let ws = if k == 7 { 16 } else { 8 };
        let n = c.gates as usize * ws / 8;
        let data: Vec<u8> = (0..n).map(|i| ((i * 5 + k) % 256) as u8).collect();
        blocks.push(Block::moment(KIND_NAMES[k], c.gates, ws as u8, 2.0, 66.0, &data));
    }
    let (body, _) = t31_body(&h, &blocks, &Layout::default());
    st.eval();
    let wit = || c.json();
    let m = match decode(body) {
        Caught::Ret(Ok(m)) => m,
        other => {
            ctx.fail("header:decode_failed", || format!("{:?}", other.ret()), wit);
            return;
        }
    };
    let r1 = guarded(|| m.radial().map_err(|e| format!("{:?}", e)));
    let m2 = m.clone();
    let r2 = guarded(move || m2.into_radial().map_err(|e| format!("{:?}", e)));
    let (r1, r2) = match (r1, r2) {
        (Caught::Ret(Ok(a)), Caught::Ret(Ok(b))) => (a, b),
        (a, b) => {
            ctx.fail("header:conversion_failed", || format!("radial={:?} into_radial={:?}", a.ret().map(|x| x.is_ok()), b.ret().map(|x| x.is_ok())), wit);
            return;
        }
    };
    if r1 != r2 {
        ctx.fail("header:radial_ne_into_radial", || format!("{:?}", c), wit);
    }
    for (label, r) in [("radial", &r1), ("into_radial", &r2)] {
        let mut bad = |what: &str, detail: String| ctx.fail(&format!("header:{what}:{label}"), || detail.clone(), wit);
        if r.azimuth_number() != c.az_num {
            bad("azimuth_number", format!("{} vs {}", r.azimuth_number(), c.az_num));
        }
        if r.elevation_number() != c.elev_num {
            bad("elevation_number", format!("{} vs {}", r.elevation_number(), c.elev_num));
        }
        if r.azimuth_angle_degrees().to_bits() != c.az_angle.to_bits() {
            bad("azimuth_angle", format!("{} vs {}", r.azimuth_angle_degrees(), c.az_angle));
        }
        if r.elevation_angle_degrees().to_bits() != c.elev_angle.to_bits() {
            bad("elevation_angle", format!("{} vs {}", r.elevation_angle_degrees(), c.elev_angle));
        }
        if r.azimuth_spacing_degrees() != 0.5 * c.spacing as f32 {
            bad("azimuth_spacing", format!("{} vs 0.5*{}", r.azimuth_spacing_degrees(), c.spacing));
        }
        if c.status <= 5 {
            let e = [
                RadialStatus::ElevationStart,
                RadialStatus::IntermediateRadialData,
                RadialStatus::ElevationEnd,
                RadialStatus::VolumeScanStart,
                RadialStatus::VolumeScanEnd,
                RadialStatus::ElevationStartVCPFinal,
            ][c.status as usize];
            if r.radial_status() != e {
                bad("radial_status", format!("code {}: {:?} vs {:?}", c.status, r.radial_status(), e));
            }
        }
        if (1..=65535).contains(&(c.date as u32)) && c.time < 86_400_000 {
            let e = ref_epoch_ms(c.date as i64, c.time as i64);
            if r.collection_timestamp() != e {
                bad("collection_timestamp", format!("{} vs {}", r.collection_timestamp(), e));
            }
            if r.collection_time().map(|t| t.timestamp_millis()) != Some(e) {
                bad("collection_time", format!("{:?} vs {}", r.collection_time(), e));
            }
        }
        for k in 3..10 {
            let expect = kinds.contains(&k);
            let got = radial_moment(r, k);
            if got.is_some() != expect {
                bad(&format!("moment_presence:{}", kind_label(k)), format!("present={} expected={}", got.is_some(), expect));
            } else if let Some(md) = got {
                if let Caught::Ret(v) = guarded(|| md.values()) {
                    if v.len() != c.gates as usize {
                        bad(&format!("moment_value_count:ws={}", if k == 7 { 16 } else { 8 }), format!("{}: {} values for {} gates", kind_label(k), v.len(), c.gates));
                    }
                }
            }
        }
    }
    st.outcome("header_checked");
}

pub fn run(ctx: &'static Ctx) -> (&'static str, Value, Vec<&'static str>) {
    let thorough = ctx.tier.thorough();
    let pairs: Vec<(f32, f32)> = vec![
        (2.0, 66.0), (2.0, 129.0), (0.5, 1.0), (100.0, 0.5), (2.8361, 2.0), (0.0, 0.0), (0.0, 7.5), (1e-3, -1e3), (-2.0, 66.0), (360.0 / 65535.0, 2.0),
        // operational WSR-88D values and floating-point extremes (all finite)
        (16.0, 128.0), (300.0, -60.5), (1.0, 8.0), (-0.0, 3.0), (f32::MIN_POSITIVE, 0.0), (1.0e-40, 2.0), (3.0e38, -3.0e38), (1.0, 3.0e38), (0.1, 0.3), (3.0, 1.0e-30), (-1.0e-3, 65535.0), (7.0, -0.0),
    ];
    // 8-bit: all 256 raw values, per moment kind and (scale, offset)
    let mut cases: Vec<GateCase> = Vec::new();
    for kind in 3..10usize {
        for &(s, o) in &pairs {
            cases.push(GateCase { kind, ws: 8, raws: (0..256u32).collect(), scale: s, offset: o });
        }
    }
    // 16-bit: all 65536 raw values in blocks of 1024 gates, for PHI (and thorough: every kind)
    let kinds16: Vec<usize> = if thorough { (3..10).collect() } else { vec![7, 3] };
    let pairs16: Vec<(f32, f32)> = if thorough { pairs.clone() } else { vec![(2.8361, 2.0), (0.0, 7.5), (2.0, 66.0)] };
    for &kind in &kinds16 {
        for &(s, o) in &pairs16 {
            for blk in 0..64u32 {
                cases.push(GateCase { kind, ws: 16, raws: (blk * 1024..(blk + 1) * 1024).collect(), scale: s, offset: o });
            }
        }
    }
    // gate counts 0, 1, 3, 1840 for both word sizes
    for &n in &[0usize, 1, 3, 1840] {
        for ws in [8u8, 16] {
            for kind in [3usize, 7, 9] {
                cases.push(GateCase { kind, ws, raws: (0..n as u32).map(|i| (i * 7 + 2) % if ws == 8 { 256 } else { 65536 }).collect(), scale: 2.0, offset: 66.0 });
            }
        }
    }
    let s1: Stats = cases
        .par_iter()
        .fold(Stats::new, |mut st, c| {
            check_gates(ctx, c, &mut st);
            st.dim("word_size", c.ws);
            st.dim("kind", kind_label(c.kind));
            st.count("raw_values_checked", c.raws.len() as u64);
            st.nontrivial(format!("g{}/{}/{}/{}/{:?}", c.kind, c.ws, c.scale.to_bits(), c.offset.to_bits(), c.raws.first()).as_bytes());
            if c.ws == 16 && c.raws.first() == Some(&1024) {
                st.sample(2, || json!({"kind": kind_label(c.kind), "ws": 16, "raws": "1024..2048", "scale": c.scale, "offset": c.offset}));
            }
            st
        })
        .reduce(Stats::new, Stats::merge);

    // header mapping
    let mut hcases = Vec::new();
    let statuses: Vec<u8> = (0..=7).collect();
    let spacings: Vec<u8> = vec![0, 1, 2, 3, 255];
    let az: Vec<u16> = vec![0, 1, 360, 720, 65535];
    let el: Vec<u8> = vec![0, 1, 25, 255];
    let dt: Vec<(u16, u32)> = vec![(1, 0), (19000, 43_200_000), (65535, 86_399_999), (2, 1)];
    for &status in &statuses {
        for &spacing in &spacings {
            for (i, &a) in az.iter().enumerate() {
                for (j, &e) in el.iter().enumerate() {
                    let (d, t) = dt[(i + j) % dt.len()];
                    hcases.push(HeaderCase {
                        status,
                        spacing,
                        az_num: a,
                        elev_num: e,
                        date: d,
                        time: t,
                        az_angle: a as f32 * 0.5 + 0.25,
                        elev_angle: e as f32 * 0.1 - 1.0,
                        moments: ((i * 37 + j * 11 + status as usize) % 128) as u8,
                        gates: [0u16, 1, 3, 1840][(i + j) % 4],
                    });
                }
            }
        }
    }
    // all 2^7 moment subsets x gate counts
    for mask in 0..128u8 {
        for &g in &[0u16, 1, 3, 1840] {
            hcases.push(HeaderCase { status: 1, spacing: 1, az_num: 5, elev_num: 2, date: 19000, time: 5, az_angle: 2.5, elev_angle: 0.48, moments: mask, gates: g });
        }
    }
    let s2: Stats = hcases
        .par_iter()
        .fold(Stats::new, |mut st, c| {
            check_header(ctx, c, &mut st);
            st.dim("status_code", c.status);
            st.dim("spacing_code", c.spacing);
            st.dim("moment_subset_size", c.moments.count_ones());
            st.nontrivial(format!("{:?}", c).as_bytes());
            if c.status == 5 && c.spacing == 2 && c.az_num == 720 {
                st.sample(5, || c.json());
            }
            st
        })
        .reduce(Stats::new, Stats::merge);
    // history dimension: all sequences of <= 3 conversions over a 10-operation alphabet, each
    // sequence on a fresh thread; every conversion must still equal the history-free reference
    let ops: Vec<GateCase> = {
        let mk = |kind: usize, ws: u8, n: u32, scale: f32, offset: f32| GateCase {
            kind,
            ws,
            raws: (0..n).map(|i| if i < 4 { i } else { (i * 37 + 1) % if ws == 8 { 256 } else { 65536 } }).collect(),
            scale,
            offset,
        };
        vec![
            mk(3, 8, 300, 0.0, 0.0),
            mk(3, 8, 300, 2.0, 66.0),
            mk(4, 8, 3, 2.0, 129.0),
            mk(7, 16, 300, 0.0, 7.5),
            mk(7, 16, 300, 2.8361, 2.0),
            mk(5, 8, 1840, 0.5, 1.0),
            mk(3, 8, 257, 2.0, 129.0),
            mk(6, 16, 2, 100.0, 0.5),
            mk(8, 8, 300, -2.0, 66.0),
            mk(3, 8, 256, 2.0, 66.0),
        ]
    };
    let hist_stats = std::sync::Mutex::new(Stats::new());
    for_each_history(ops.len(), if thorough { 3 } else { 3 }, |w| {
        let mut st = Stats::new();
        let before = ctx.failure_count();
        for (step, op) in w.iter().enumerate() {
            check_gates(ctx, &ops[*op], &mut st);
            // Debug formatting also converts values
            let _ = step;
        }
        if ctx.failure_count() > before && w.len() > 1 {
            // attribute to the history if the last operation alone is fine
            let mut alone = Stats::new();
            let b2 = ctx.failure_count();
            let last = *w.last().unwrap_or(&0);
            std::thread::scope(|s| {
                s.spawn(|| check_gates(ctx, &ops[last], &mut alone));
            });
            if ctx.failure_count() == b2 {
                ctx.fail(
                    "history:conversion_depends_on_previous_conversions",
                    || format!("operation sequence {:?} (indices into the 10-operation alphabet): a conversion that is correct on a fresh thread is wrong after the preceding ones", w),
                    || json!({"op": "history", "sequence": w}),
                );
            }
        }
        st.count("history_sequences", 1);
        st.nontrivial(format!("h{:?}", w).as_bytes());
        let mut g = hist_stats.lock().unwrap_or_else(|e| e.into_inner());
        let old = std::mem::take(&mut *g);
        *g = old.merge(st);
    });
    let s3 = hist_stats.into_inner().unwrap_or_else(|e| e.into_inner());
    let stats = s1.merge(s2).merge(s3);
    let cov = stats.coverage(
        "gate values: all 256 raw values x 7 moments x 10 (scale, offset) pairs for 8-bit; all 65536 raw values (64 messages of 1024 gates) for 16-bit moments x kinds x pairs; gate counts {0,1,3,1840}; oracle computed in f32 and compared bit-exactly at decode level and model level. header mapping: status 0..=7 x spacing {0,1,2,3,255} x azimuth/elevation numbers at bounds x date/time; all 128 moment subsets x 4 gate counts. history: every sequence of <= 3 conversions over a 10-operation alphabet (8/16-bit, scale 0 / non-zero / negative, 2..1840 gates) run back-to-back on a fresh thread, each result compared with the history-free reference. non-trivial = every case (distinct by content hash)",
        true,
        json!({"pairs": pairs.iter().map(|p| [p.0, p.1]).collect::<Vec<_>>(), "kinds16": kinds16}),
    );
    (
        "exploration",
        cov,
        vec![
            "scale == 0 with raw 0/1: only decode-level == model-level is required (statement ambiguous)",
            "f32 arithmetic of the reference mirrors the documented formula (raw - offset) / scale",
        ],
    )
}

pub fn replay(ctx: &'static Ctx, case: &Value) {
    let mut st = Stats::new();
    match case["op"].as_str() {
        Some("gates") => {
            let c = GateCase {
                kind: case["kind"].as_u64().unwrap_or(3) as usize,
                ws: case["ws"].as_u64().unwrap_or(8) as u8,
                raws: case["raws"].as_array().map(|a| a.iter().map(|x| x.as_u64().unwrap_or(0) as u32).collect()).unwrap_or_default(),
                scale: f32::from_bits(case["scale_bits"].as_u64().unwrap_or(0) as u32),
                offset: f32::from_bits(case["offset_bits"].as_u64().unwrap_or(0) as u32),
            };
            check_gates(ctx, &c, &mut st);
        }
        Some("header") => {
            let g = |k: &str| case[k].as_u64().unwrap_or(0);
            let c = HeaderCase {
                status: g("status") as u8,
                spacing: g("spacing") as u8,
                az_num: g("az_num") as u16,
                elev_num: g("elev_num") as u8,
                date: g("date") as u16,
                time: g("time") as u32,
                az_angle: f32::from_bits(g("az_angle_bits") as u32),
                elev_angle: f32::from_bits(g("elev_angle_bits") as u32),
                moments: g("moments") as u8,
                gates: g("gates") as u16,
            };
            check_header(ctx, &c, &mut st);
        }
        Some("history") => {
            println!("history replay: re-running the whole check (sequences are cheap)");
            let _ = run(ctx);
        }
        _ => machinery("C07 replay: unknown op"),
    }
    println!("replay C07 -> {:?}", st.outcomes);
}
