//! C13 — clutter filter map decodes to the encoded segment / azimuth / zone structure.
//! E3 + every truncation point.

use crate::core::*;
use crate::enc::*;
use nexrad_decode::messages::clutter_filter_map as cfm;
use rayon::prelude::*;
use serde_json::{json, Value};

#[derive(Clone, Debug)]
struct Shape {
    segments: u16,
    /// zone-count pattern id
    pattern: u8,
    date: u16,
    time: u16,
}

fn zone_count(pattern: u8, seg: usize, az: usize) -> usize {
    match pattern {
        0 => 0,
        1 => 1,
        2 => 25,
        3 => (az + seg) % 26,
        4 => if az % 90 == 0 { 20 } else { 2 },
        // large, non-monotone counts (beyond any plausible fixed buffer: 64, 256, 1024 bytes/entries)
        5 => [100, 70, 300, 65, 64, 66, 0, 257, 1, 1100, 90][(az + seg) % 11],
        6 => if az == 200 { 5000 } else if az == 201 { 80 } else { (az % 3) * 40 },
        _ => 1,
    }
}

fn build(shape: &Shape) -> (Vec<u8>, Vec<Vec<Vec<(u16, u16)>>>) {
    let mut segs = Vec::new();
    for s in 0..shape.segments as usize {
        let mut azs = Vec::new();
        for a in 0..360usize {
            let n = zone_count(shape.pattern, s, a);
            let zones: Vec<(u16, u16)> = (0..n)
                .map(|z| (((s + a + z) % 3) as u16, (((s * 131 + a * 7 + z * 19) % 511) + 1) as u16))
                .collect();
            azs.push(zones);
        }
        segs.push(azs);
    }
    (clutter_body(shape.date, shape.time, shape.segments, &segs), segs)
}

fn check_shape(ctx: &Ctx, shape: &Shape, st: &mut Stats) {
    let (bytes, model) = build(shape);
    st.eval();
    let wit = || json!({"op": "shape", "segments": shape.segments, "pattern": shape.pattern, "date": shape.date, "time": shape.time});
    let cls = format!("segments={}:pattern={}", if shape.segments == 0 { "0".into() } else if shape.segments == 1 { "1".into() } else if shape.segments == 255 { "255".to_string() } else { "n".into() }, shape.pattern);
    let b2 = bytes.clone();
    let m = match guarded(move || cfm::decode_clutter_filter_map(&mut b2.as_slice())) {
        Caught::Panic(p) => {
            ctx.fail(&format!("decode:panic:{cls}"), || p.clone(), wit);
            return;
        }
        Caught::Ret(Err(e)) => {
            ctx.fail(&format!("decode:well_formed_rejected:{cls}"), || format!("{:?}", e), wit);
            return;
        }
        Caught::Ret(Ok(m)) => m,
    };
    // header
    if m.header.map_generation_date != shape.date || m.header.map_generation_time != shape.time || m.header.elevation_segment_count != shape.segments {
        ctx.fail("layout:header", || format!("{:?}", m.header), wit);
    }
    match guarded(|| m.header.date_time().map(|d| d.timestamp_millis())) {
        Caught::Ret(Some(t)) if t == ref_epoch_ms(shape.date as i64, shape.time as i64 * 60_000) => {}
        other => {
            if (1..=65535).contains(&shape.date) && shape.time < 1440 {
                ctx.fail("header:date_time", || format!("{:?}", other), wit)
            }
        }
    }
    if m.elevation_segments.len() != model.len() {
        ctx.fail(&format!("structure:segment_count:{cls}"), || format!("got {} expected {}", m.elevation_segments.len(), model.len()), wit);
        return;
    }
    for (si, seg) in m.elevation_segments.iter().enumerate() {
        if si > 0 && seg.elevation_segment_number != m.elevation_segments[si - 1].elevation_segment_number.wrapping_add(1) {
            ctx.fail("structure:segments_not_consecutively_numbered", || format!("segment {si} numbered {}", seg.elevation_segment_number), wit);
        }
        if seg.azimuth_segments.len() != 360 {
            ctx.fail("structure:azimuth_count", || format!("segment {si}: {} azimuth segments", seg.azimuth_segments.len()), wit);
            return;
        }
        for (ai, az) in seg.azimuth_segments.iter().enumerate() {
            if az.azimuth_segment as usize != ai {
                ctx.fail("structure:azimuth_numbering", || format!("segment {si} azimuth index {ai} numbered {}", az.azimuth_segment), wit);
            }
            let exp = &model[si][ai];
            if az.header.range_zone_count as usize != exp.len() {
                ctx.fail("structure:declared_zone_count", || format!("seg {si} az {ai}"), wit);
            }
            let got: Vec<(u16, u16)> = az.range_zones.iter().map(|z| (z.op_code, z.end_range)).collect();
            if &got != exp {
                let sig = if got.len() != exp.len() {
                    "structure:zone_count"
                } else if got.iter().zip(exp.iter()).all(|(g, e)| g.0 == e.1 && g.1 == e.0) {
                    "structure:zone_fields_swapped"
                } else {
                    "structure:zone_values"
                };
                ctx.fail(sig, || format!("seg {si} az {ai}: got {:?} expected {:?}", got, exp), wit);
                return;
            }
            for z in &az.range_zones {
                let e = match z.op_code {
                    0 => "BypassFilter",
                    1 => "BypassMapInControl",
                    _ => "ForceFilter",
                };
                match guarded(|| format!("{:?}", z.op_code())) {
                    Caught::Ret(g) if g == e => {}
                    other => {
                        ctx.fail("opcode:meaning", || format!("code {}: {:?}", z.op_code, other), wit);
                        return;
                    }
                }
            }
        }
    }
    // the decoder must consume exactly the body
    let mut longer = bytes.clone();
    longer.extend_from_slice(&[0xEE; 5]);
    let mut r = longer.as_slice();
    let _ = cfm::decode_clutter_filter_map(&mut r);
    if r.len() != 5 {
        ctx.fail("structure:consumed_length", || format!("left {} of 5 trailing bytes", r.len()), wit);
    }
    st.outcome("structure_ok");
}

fn check_truncations(ctx: &Ctx, shape: &Shape, stride: usize, st: &mut Stats) {
    let (bytes, _) = build(shape);
    let cuts: Vec<usize> = (0..bytes.len()).filter(|c| stride == 1 || *c % stride == 0 || *c < 64 || *c + 64 > bytes.len()).collect();
    let s: Stats = cuts
        .par_iter()
        .fold(Stats::new, |mut st, &cut| {
            let b = bytes[..cut].to_vec();
            st.eval();
            match guarded(move || cfm::decode_clutter_filter_map(&mut b.as_slice()).is_ok()) {
                Caught::Ret(false) => st.outcome("truncation_err"),
                Caught::Ret(true) => ctx.fail(
                    "truncation:accepted",
                    || format!("segments {} pattern {}: body cut at {cut} of {} decoded successfully", shape.segments, shape.pattern, bytes.len()),
                    || json!({"op": "truncate", "segments": shape.segments, "pattern": shape.pattern, "cut": cut}),
                ),
                Caught::Panic(p) => ctx.fail("truncation:panic", || p.clone(), || json!({"op": "truncate", "segments": shape.segments, "pattern": shape.pattern, "cut": cut})),
            }
            st.nontrivial(format!("t{}/{}/{cut}", shape.segments, shape.pattern).as_bytes());
            st
        })
        .reduce(Stats::new, Stats::merge);
    let old = std::mem::take(st);
    *st = old.merge(s);
}

pub fn run(ctx: &'static Ctx) -> (&'static str, Value, Vec<&'static str>) {
    let thorough = ctx.tier.thorough();
    // all segment counts 0..=255 with one zone per azimuth
    let s1: Stats = (0u16..=255)
        .into_par_iter()
        .fold(Stats::new, |mut st, n| {
            let sh = Shape { segments: n, pattern: 1, date: 19000 + n, time: (n * 5) % 1440 };
            check_shape(ctx, &sh, &mut st);
            st.nontrivial(format!("s{n}").as_bytes());
            st.dim("pattern", 1);
            st
        })
        .reduce(Stats::new, Stats::merge);
    let mut stats = s1;
    let seg_small: Vec<u16> = if thorough { vec![0, 1, 2, 3, 5] } else { vec![0, 1, 2] };
    for n in seg_small {
        for pattern in 0..=6u8 {
            let sh = Shape { segments: n, pattern, date: 1 + n, time: 1439 };
            check_shape(ctx, &sh, &mut stats);
            stats.nontrivial(format!("s{n}p{pattern}").as_bytes());
            stats.dim("pattern", pattern);
        }
    }
    // a declared zone count of 65535 with the zones present (one azimuth), single segment
    {
        let mut segs = vec![vec![vec![(1u16, 511u16)]; 360]];
        segs[0][17] = (0..65535u32).map(|z| ((z % 3) as u16, (z % 512) as u16)).collect();
        let bytes = clutter_body(100, 100, 1, &segs);
        stats.eval();
        match guarded(|| cfm::decode_clutter_filter_map(&mut bytes.as_slice())) {
            Caught::Ret(Ok(m)) => {
                let az = &m.elevation_segments[0].azimuth_segments[17];
                if az.range_zones.len() != 65535 || az.range_zones[65534].end_range != (65534u32 % 512) as u16 {
                    ctx.fail("structure:zone_count_65535", || format!("{}", az.range_zones.len()), || json!({"op": "big_zone"}));
                }
                stats.outcome("zone_count_65535_ok");
            }
            other => ctx.fail("decode:well_formed_rejected:zone65535", || format!("{:?}", other.ret().map(|r| r.is_ok())), || json!({"op": "big_zone"})),
        }
    }
    // history: two different maps decoded back to back on a fresh thread must each equal the
    // result of decoding them alone
    {
        let shapes: Vec<Shape> = vec![
            Shape { segments: 1, pattern: 5, date: 3, time: 3 },
            Shape { segments: 2, pattern: 1, date: 4, time: 4 },
            Shape { segments: 1, pattern: 6, date: 5, time: 5 },
            Shape { segments: 0, pattern: 0, date: 6, time: 6 },
            Shape { segments: 3, pattern: 3, date: 7, time: 7 },
        ];
        let hs = std::sync::Mutex::new(Stats::new());
        for_each_history(shapes.len(), 2, |w| {
            let mut st = Stats::new();
            for i in w {
                check_shape(ctx, &shapes[*i], &mut st);
            }
            st.count("history_sequences", 1);
            let mut g = hs.lock().unwrap_or_else(|e| e.into_inner());
            let old = std::mem::take(&mut *g);
            *g = old.merge(st);
        });
        stats = stats.merge(hs.into_inner().unwrap_or_else(|e| e.into_inner()));
        // the same decodes under the generic dimensions of history_check (one CPU, async executor
        // contexts, cross-API disturbances, small stack in the stack128 variant)
        let bodies: Vec<Vec<u8>> = shapes.iter().map(|sh| build(sh).0).collect();
        let sg = history_check(
            ctx,
            "decode_clutter_filter_map",
            bodies.len(),
            1,
            |i| guarded(|| cfm::decode_clutter_filter_map(&mut bodies[i].as_slice()).ok().map(|m| fnv64(format!("{:?}", m).as_bytes()))),
            |i| format!("map with {} segment(s), zone pattern {}", shapes[i].segments, shapes[i].pattern),
        );
        stats = stats.merge(sg);
        use crate::guard::{short_read_check, SplitReader};
        for sh in [Shape { segments: 1, pattern: 1, date: 5, time: 5 }, Shape { segments: 1, pattern: 5, date: 5, time: 5 }] {
            let (bytes, _) = build(&sh);
            let n = short_read_check(ctx, "decode_clutter_filter_map", &bytes, false, |r: &mut SplitReader| cfm::decode_clutter_filter_map(r).ok(), |shape| json!({"op": "short_read", "segments": sh.segments, "pattern": sh.pattern, "boundaries": shape.0, "max_chunk": shape.1}));
            stats.evaluations += n;
            stats.count("short_read_shapes", n);
            let n = crate::guard::two_actor_check(ctx, "decode_clutter_filter_map", &bytes, 48, |r: &mut SplitReader| cfm::decode_clutter_filter_map(r).ok(), |mode, k| json!({"op": "short_read", "segments": sh.segments, "pattern": sh.pattern, "mode": mode, "read_call": k}));
            stats.evaluations += n;
            stats.count("two_actor_schedules", n);
        }
    }
    // truncations: every cut of the 1-segment/1-zone map and of a 2-segment mixed map
    check_truncations(ctx, &Shape { segments: 1, pattern: 1, date: 5, time: 5 }, 1, &mut stats);
    check_truncations(ctx, &Shape { segments: 2, pattern: 3, date: 5, time: 5 }, if thorough { 1 } else { 3 }, &mut stats);
    if thorough {
        check_truncations(ctx, &Shape { segments: 1, pattern: 0, date: 5, time: 5 }, 1, &mut stats);
        check_truncations(ctx, &Shape { segments: 5, pattern: 4, date: 5, time: 5 }, 1, &mut stats);
    }
    stats.sample(2, || json!({"shape": {"segments": 2, "pattern": "zones = (az+seg) mod 26"}, "bytes": build(&Shape{segments:2,pattern:3,date:5,time:5}).0.len()}));
    let cov = stats.coverage(
        "all segment counts 0..=255 (1 zone/azimuth); counts {0,1,2[,3,5]} x 7 zone-count patterns (0, 1, 25, (az+seg) mod 26, mixed 20/2, large non-monotone 0..1100, a 5000-zone azimuth followed by an 80-zone one); every ordered pair of five maps decoded back to back on a fresh thread; short-read reader shapes; one azimuth with 65535 zones; every truncation point of the 1-segment map and of a 2-segment mixed map (thorough: two more). Oracle = the encoder's own structure. non-trivial = distinct shape / cut",
        true,
        json!({}),
    );
    (
        "exploration",
        cov,
        vec!["clutter map layout per DESIGN Appendix A", "segment numbering checked as consecutive (start value not constrained)"],
    )
}

pub fn replay(ctx: &'static Ctx, case: &Value) {
    let mut st = Stats::new();
    let sh = Shape {
        segments: case["segments"].as_u64().unwrap_or(1) as u16,
        pattern: case["pattern"].as_u64().unwrap_or(1) as u8,
        date: case["date"].as_u64().unwrap_or(5) as u16,
        time: case["time"].as_u64().unwrap_or(5) as u16,
    };
    match case["op"].as_str() {
        Some("shape") => check_shape(ctx, &sh, &mut st),
        Some("truncate") => {
            let (bytes, _) = build(&sh);
            let cut = case["cut"].as_u64().unwrap_or(0) as usize;
            let b = bytes[..cut.min(bytes.len())].to_vec();
            match guarded(move || cfm::decode_clutter_filter_map(&mut b.as_slice()).is_ok()) {
                Caught::Ret(false) => println!("truncation rejected (ok)"),
                Caught::Ret(true) => ctx.fail("truncation:accepted", || format!("cut {cut}"), || case.clone()),
                Caught::Panic(p) => ctx.fail("truncation:panic", || p, || case.clone()),
            }
        }
        _ => {
            let _ = run(ctx);
        }
    }
    println!("replay C13 {:?} -> {:?}", case, st.outcomes);
}
