//! C12 — RDA status message: layout, coded fields, flags and alarm table.
//! E3, exhaustive on raw values.

use crate::core::*;
use crate::enc::*;
use nexrad_decode::messages::rda_status_data as rda;
use rayon::prelude::*;
use serde_json::{json, Value};

/// Decodes 60 halfwords; a panic or an error of the decoder itself is a verdict (every 60-halfword
/// body is well formed), reported once per class, and the caller skips the case.
fn decode_g(ctx: &Ctx, hw: &[u16; 60]) -> Option<rda::Message> {
    let body = rda_body(hw);
    match guarded(move || rda::decode_rda_status_message(&mut body.as_slice()).map_err(|e| format!("{e:?}"))) {
        Caught::Ret(Ok(m)) => Some(m),
        Caught::Ret(Err(e)) => {
            ctx.fail("decode:well_formed_status_message_rejected", || e.clone(), || json!({"op": "decode", "halfwords": hw.to_vec()}));
            None
        }
        Caught::Panic(p) => {
            ctx.fail(&format!("decode:panic:{}", panic_class(&p)), || p.clone(), || json!({"op": "decode", "halfwords": hw.to_vec()}));
            None
        }
    }
}

fn decode(hw: &[u16; 60]) -> rda::Message {
    rda::decode_rda_status_message(&mut rda_body(hw).as_slice()).expect("120 bytes decode")
}

/// Plans 0..=4: arithmetic patterns. Plans 8 + 4k + t (k = 0..12, t = 0..4): every coded field holds
/// its (k mod n)-th documented code at the same time, and the WHOLE message is then transformed:
/// t = 0 as is, 1 = bytes of every halfword swapped, 2 = complemented, 3 = rotated left by one bit.
/// A heuristic that re-interprets a message (byte order, legacy format) keys on such a global
/// pattern, which no single-field or pairwise sweep produces.
fn plan(p: u8) -> [u16; 60] {
    if p >= 8 {
        let (k, t) = (((p - 8) / 4) as usize, (p - 8) % 4);
        let mut hw = rda_in_domain();
        for (_, hwno, table) in coded_tables() {
            hw[hwno - 1] = table[k % table.len()].0;
        }
        for h in hw.iter_mut() {
            *h = match t {
                1 => h.swap_bytes(),
                2 => !*h,
                3 => h.rotate_left(1),
                _ => *h,
            };
        }
        return hw;
    }
    let mut hw = [0u16; 60];
    for (i, h) in hw.iter_mut().enumerate() {
        let a = ((i * 2 * 7 + 13) & 0xFF) as u16;
        let b = (((i * 2 + 1) * 7 + 13) & 0xFF) as u16;
        let v = (a << 8) | b;
        *h = match p {
            0 => v,
            1 => !v,
            2 => (i as u16 + 1).wrapping_mul(1031),
            3 => 0,
            _ => 0xFFFF,
        };
    }
    hw
}

fn check_layout(ctx: &Ctx, p: u8, st: &mut Stats) {
    let hw = plan(p);
    let Some(m) = decode_g(ctx, &hw) else { return };
    st.eval();
    let wit = || json!({"op": "layout", "plan": p});
    let mut f: Vec<(&str, usize, u16)> = vec![
        ("rda_status", 1, m.rda_status),
        ("operability_status", 2, m.operability_status),
        ("control_status", 3, m.control_status),
        ("auxiliary_power_generator_state", 4, m.auxiliary_power_generator_state),
        ("average_transmitter_power", 5, m.average_transmitter_power),
        ("horizontal_reflectivity_calibration_correction", 6, m.horizontal_reflectivity_calibration_correction),
        ("data_transmission_enabled", 7, m.data_transmission_enabled),
        ("volume_coverage_pattern", 8, m.volume_coverage_pattern as u16),
        ("rda_control_authorization", 9, m.rda_control_authorization),
        ("rda_build_number", 10, m.rda_build_number),
        ("operational_mode", 11, m.operational_mode),
        ("super_resolution_status", 12, m.super_resolution_status),
        ("clutter_mitigation_decision_status", 13, m.clutter_mitigation_decision_status),
        ("rda_scan_and_data_flags", 14, m.rda_scan_and_data_flags),
        ("rda_alarm_summary", 15, m.rda_alarm_summary),
        ("command_acknowledgement", 16, m.command_acknowledgement),
        ("channel_control_status", 17, m.channel_control_status),
        ("spot_blanking_status", 18, m.spot_blanking_status),
        ("bypass_map_generation_date", 19, m.bypass_map_generation_date),
        ("bypass_map_generation_time", 20, m.bypass_map_generation_time),
        ("clutter_filter_map_generation_date", 21, m.clutter_filter_map_generation_date),
        ("clutter_filter_map_generation_time", 22, m.clutter_filter_map_generation_time),
        ("vertical_reflectivity_calibration_correction", 23, m.vertical_reflectivity_calibration_correction),
        ("transition_power_source_status", 24, m.transition_power_source_status),
        ("rms_control_status", 25, m.rms_control_status),
        ("performance_check_status", 26, m.performance_check_status),
        ("signal_processor_options", 41, m.signal_processor_options),
        ("status_version", 60, m.status_version),
    ];
    for (i, c) in m.alarm_codes.iter().enumerate() {
        f.push(("alarm_codes", 27 + i, *c));
    }
    for (i, c) in m.spares.iter().enumerate() {
        f.push(("spares", 42 + i, *c));
    }
    let mut covered = [false; 61];
    for (name, hwno, got) in f {
        covered[hwno] = true;
        if got != hw[hwno - 1] {
            ctx.fail(
                &format!("layout:{name}"),
                || format!("plan {p}: halfword {hwno} holds {:#06x}, field {name} = {:#06x}", hw[hwno - 1], got),
                wit,
            );
        }
    }
    if covered[1..].iter().any(|c| !c) {
        machinery("C12 layout table does not cover all 60 halfwords");
    }
    // exactly 120 bytes consumed
    let mut bytes = rda_body(&hw);
    bytes.extend_from_slice(&[0xEE; 6]);
    let mut r = bytes.as_slice();
    let _ = rda::decode_rda_status_message(&mut r);
    if r.len() != 6 {
        ctx.fail("layout:consumed_length", || format!("consumed {}", bytes.len() - r.len()), wit);
    }
    st.outcome("layout_checked");
}

/// Documented (code, meaning) tables, provenance D (numeric values in the field docs).
fn coded_tables() -> Vec<(&'static str, usize, Vec<(u16, &'static str)>)> {
    vec![
        ("rda_status", 1, vec![(2, "StartUp"), (4, "Standby"), (8, "Restart"), (16, "Operate")]),
        ("operability_status", 2, vec![(2, "OnLine"), (4, "MaintenanceActionRequired"), (8, "MaintenanceActionMandatory"), (16, "CommandedShutDown"), (32, "Inoperable")]),
        ("control_status", 3, vec![(2, "LocalControlOnly"), (4, "RemoteControlOnly"), (8, "EitherLocalOrRemoteControl")]),
        ("auxiliary_power_generator_state", 4, vec![(1, "SwitchedToAuxiliaryPower"), (2, "UtilityPowerAvailable"), (4, "GeneratorOn"), (8, "TransferSwitchSetToManual"), (16, "CommandedSwitchover")]),
        ("rda_control_authorization", 9, vec![(0, "NoAction"), (2, "LocalControlRequested"), (4, "RemoteControlRequested")]),
        ("operational_mode", 11, vec![(4, "Operational"), (8, "Maintenance")]),
        ("super_resolution_status", 12, vec![(2, "Enabled"), (4, "Disabled")]),
        ("clutter_mitigation_decision_status", 13, vec![
            (0, "Disabled"), (1, "Enabled"),
            (2, "BypassMapElevationSegments([1])"), (4, "BypassMapElevationSegments([2])"), (8, "BypassMapElevationSegments([3])"),
            (16, "BypassMapElevationSegments([4])"), (32, "BypassMapElevationSegments([5])"),
        ]),
        ("command_acknowledgement", 16, vec![(1, "Some(RemoteVCPReceived)"), (2, "Some(ClutterBypassMapReceived)"), (3, "Some(ClutterCensorZonesReceived)"), (4, "Some(RedundantChannelControlCommandAccepted)")]),
        ("channel_control_status", 17, vec![(0, "true"), (1, "false")]),
        ("spot_blanking_status", 18, vec![(0, "NotInstalled"), (1, "Enabled"), (4, "Disabled")]),
        ("transition_power_source_status", 24, vec![(0, "NotInstalled"), (1, "Off"), (3, "OK"), (4, "Unknown")]),
        ("rms_control_status", 25, vec![(0, "NonRMS"), (2, "RMSInControl"), (4, "RDAInControl")]),
        ("performance_check_status", 26, vec![(0, "NoCommandPending"), (1, "ForcePerformanceCheckPending"), (2, "InProgress")]),
    ]
}

fn coded_accessor(m: &rda::Message, field: &str) -> String {
    match field {
        "rda_status" => format!("{:?}", m.rda_status()),
        "operability_status" => format!("{:?}", m.operability_status()),
        "control_status" => format!("{:?}", m.control_status()),
        "auxiliary_power_generator_state" => format!("{:?}", m.auxiliary_power_generator_state()),
        "rda_control_authorization" => format!("{:?}", m.rda_control_authorization()),
        "operational_mode" => format!("{:?}", m.operational_mode()),
        "super_resolution_status" => format!("{:?}", m.super_resolution_status()),
        "clutter_mitigation_decision_status" => format!("{:?}", m.clutter_mitigation_decision_status()),
        "command_acknowledgement" => format!("{:?}", m.command_acknowledgement()),
        "channel_control_status" => format!("{:?}", m.controlling_channel()),
        "spot_blanking_status" => format!("{:?}", m.spot_blanking_status()),
        "transition_power_source_status" => format!("{:?}", m.transition_power_source_status()),
        "rms_control_status" => format!("{:?}", m.rms_control_status()),
        "performance_check_status" => format!("{:?}", m.performance_check_status()),
        _ => machinery("unknown coded field"),
    }
}

fn check_coded(ctx: &Ctx, field: &'static str, hwno: usize, code: u16, meaning: &'static str, st: &mut Stats) {
    let mut hw = rda_in_domain();
    hw[hwno - 1] = code;
    let Some(m) = decode_g(ctx, &hw) else { return };
    st.eval();
    let wit = || json!({"op": "coded", "field": field, "halfword": hwno, "code": code, "meaning": meaning});
    match guarded(|| coded_accessor(&m, field)) {
        Caught::Panic(p) => ctx.fail(&format!("coded:{field}:code={code}:panic"), || p.clone(), wit),
        Caught::Ret(got) => {
            if got != meaning {
                ctx.fail(&format!("coded:{field}:code={code}:wrong_meaning"), || format!("code {code}: got {got}, documented {meaning}"), wit);
            } else {
                st.outcome("coded_ok");
            }
        }
    }
}

/// Raw 16-bit sweep: flag words, scaled values, VCP sign rule, clutter segment sets, alarm lookup.
fn check_raw(ctx: &Ctx, base: &rda::Message, raw: u16, st: &mut Stats) {
    let mut m = base.clone();
    let wit = |a: &str| json!({"op": "raw", "accessor": a, "raw": raw});
    macro_rules! chk {
        ($name:expr, $got:expr, $exp:expr) => {{
            st.evaluations += 1;
            match guarded(|| $got) {
                Caught::Panic(p) => ctx.fail(&format!("raw:{}:panic", $name), || format!("raw {raw:#06x}: {p}"), || wit($name)),
                Caught::Ret(g) => {
                    let e = $exp;
                    if g != e {
                        ctx.fail(&format!("raw:{}:wrong", $name), || format!("raw {raw:#06x}: got {:?} expected {:?}", g, e), || wit($name));
                    }
                }
            }
        }};
    }
    // data transmission enabled: 1 none, 2 reflectivity, 4 velocity, 8 spectrum width
    m.data_transmission_enabled = raw;
    let d = m.data_transmission_enabled();
    chk!("data_transmission.none", d.none(), raw & 1 != 0);
    chk!("data_transmission.reflectivity", d.reflectivity(), raw & 2 != 0);
    chk!("data_transmission.velocity", d.velocity(), raw & 4 != 0);
    chk!("data_transmission.spectrum_width", d.spectrum_width(), raw & 8 != 0);
    // scan and data flags: 2 AVSET enabled, 4 AVSET disabled, 8 EBC, 16 log data, 32 time series
    m.rda_scan_and_data_flags = raw;
    let f = m.rda_scan_and_data_flags();
    chk!("scan_flags.avset_enabled", f.avset_enabled(), raw & 2 != 0);
    chk!("scan_flags.ebc_enabled", f.ebc_enabled(), raw & 8 != 0);
    chk!("scan_flags.rda_log_data_enabled", f.rda_log_data_enabled(), raw & 16 != 0);
    chk!("scan_flags.time_series_data_recording_enabled", f.time_series_data_recording_enabled(), raw & 32 != 0);
    // alarm summary
    m.rda_alarm_summary = raw;
    let s = m.rda_alarm_summary();
    chk!("alarm_summary.none", s.none(), raw == 0);
    chk!("alarm_summary.tower_utilities", s.tower_utilities(), raw & 1 != 0);
    chk!("alarm_summary.pedestal", s.pedestal(), raw & 2 != 0);
    chk!("alarm_summary.transmitter", s.transmitter(), raw & 4 != 0);
    chk!("alarm_summary.receiver", s.receiver(), raw & 8 != 0);
    chk!("alarm_summary.rda_control", s.rda_control(), raw & 16 != 0);
    chk!("alarm_summary.communication", s.communication(), raw & 32 != 0);
    chk!("alarm_summary.signal_processor", s.signal_processor(), raw & 64 != 0);
    // channel control: depends on exactly bit 0 (0 = controlling, 1 = non-controlling)
    m.channel_control_status = raw;
    chk!("controlling_channel", m.controlling_channel(), raw & 1 == 0);
    // scaled values
    m.horizontal_reflectivity_calibration_correction = raw;
    {
        let unsigned = raw as f32 / 100.0;
        let signed = (raw as i16) as f32 / 100.0;
        st.evaluations += 1;
        match guarded(|| m.horizontal_reflectivity_calibration_correction()) {
            Caught::Panic(p) => ctx.fail("raw:horizontal_reflectivity_calibration_correction:panic", || p.clone(), || wit("h_cal")),
            Caught::Ret(g) => {
                // the wire type is declared unsigned; for raw >= 0x8000 the ICD's signed reading is also accepted
                if !(g == unsigned || (raw >= 0x8000 && g == signed)) {
                    ctx.fail("raw:horizontal_reflectivity_calibration_correction:wrong", || format!("raw {raw}: got {g}, expected {unsigned}"), || wit("h_cal"));
                }
            }
        }
    }
    m.rda_build_number = raw;
    let n = raw as f32;
    let exp_build = if n / 100.0 > 2.0 { n / 100.0 } else { n / 10.0 };
    chk!("rda_build_number", m.rda_build_number(), exp_build);
    // VCP number: magnitude and local/remote by sign; 0 => none
    m.volume_coverage_pattern = raw as i16;
    let sv = raw as i16;
    if sv == 0 {
        chk!("vcp_number.zero_is_none", m.volume_coverage_pattern().is_none(), true);
    } else if sv != i16::MIN {
        chk!(
            "vcp_number",
            m.volume_coverage_pattern().map(|v| (v.number(), v.local(), v.remote())),
            Some((sv.abs(), sv < 0, sv > 0))
        );
    } else {
        chk!("vcp_number.min", m.volume_coverage_pattern().map(|v| (v.local(), v.remote())), Some((true, false)));
    }
    // clutter mitigation: any subset of bits 1..=5 (bit 0 and bits >= 6 clear)
    if raw & !0b111110 == 0 && raw != 0 {
        m.clutter_mitigation_decision_status = raw;
        let segs: Vec<u8> = (1..=5u8).filter(|i| raw & (1 << i) != 0).collect();
        chk!("clutter_mitigation.segments", format!("{:?}", m.clutter_mitigation_decision_status()), format!("BypassMapElevationSegments({:?})", segs));
    }
    // alarm lookup
    st.evaluations += 1;
    match guarded(|| rda::alarm::get_alarm_message(raw)) {
        Caught::Panic(p) => ctx.fail("alarm_lookup:panic", || p.clone(), || wit("alarm_lookup")),
        Caught::Ret(r) => {
            if raw <= 800 {
                match r {
                    Some(def) if def.code() == raw => {}
                    Some(def) => ctx.fail("alarm_lookup:definition_carries_other_code", || format!("code {raw} -> definition with code {}", def.code()), || wit("alarm_lookup")),
                    None => ctx.fail("alarm_lookup:missing_definition", || format!("code {raw} has no definition"), || wit("alarm_lookup")),
                }
            } else if r.is_some() {
                ctx.fail("alarm_lookup:definition_above_800", || format!("code {raw}"), || wit("alarm_lookup"));
            }
        }
    }
}

/// alarm code arrays: the message lists the definitions of its non-zero codes in message order
fn check_alarm_array(ctx: &Ctx, codes: [u16; 14], st: &mut Stats) {
    let mut hw = rda_in_domain();
    hw[26..40].copy_from_slice(&codes);
    let Some(m) = decode_g(ctx, &hw) else { return };
    st.eval();
    let wit = || json!({"op": "alarms", "codes": codes});
    match guarded(|| m.alarm_messages()) {
        Caught::Panic(p) => ctx.fail("alarm_messages:panic", || p.clone(), wit),
        Caught::Ret(list) => {
            let got: Vec<u16> = list.iter().map(|d| d.code()).collect();
            let exp: Vec<u16> = codes.iter().copied().filter(|c| *c != 0 && *c <= 800).collect();
            if got != exp {
                ctx.fail("alarm_messages:wrong_list", || format!("codes {:?}: got {:?} expected {:?}", codes, got, exp), wit);
            }
            for d in &list {
                if rda::alarm::get_alarm_message(d.code()).as_ref() != Some(d) {
                    ctx.fail("alarm_messages:not_the_lookup_definition", || format!("code {}", d.code()), wit);
                }
            }
        }
    }
}

fn aborted(_ctx: &Ctx) -> (&'static str, Value, Vec<&'static str>) {
    ("exploration", json!({"evaluations": 1, "distinct_nontrivial": 0, "rule": "aborted: the reference status message does not decode", "samples": []}), vec![])
}

pub fn run(ctx: &'static Ctx) -> (&'static str, Value, Vec<&'static str>) {
    let thorough = ctx.tier.thorough();
    let mut stats = Stats::new();
    for p in (0..5u8).chain(8..8 + 4 * 12) {
        check_layout(ctx, p, &mut stats);
        stats.nontrivial(&[b'l', p]);
    }
    for (field, hwno, table) in coded_tables() {
        let mut meanings = Vec::new();
        for (code, meaning) in &table {
            check_coded(ctx, field, hwno, *code, meaning, &mut stats);
            stats.nontrivial(format!("c{field}{code}").as_bytes());
            stats.dim("coded_field", field);
            // distinct codes give distinct meanings (as observed)
            let mut hw = rda_in_domain();
            hw[hwno - 1] = *code;
            let Some(m) = decode_g(ctx, &hw) else { continue };
            if let Caught::Ret(s) = guarded(|| coded_accessor(&m, field)) {
                meanings.push(s);
            }
        }
        let n = meanings.len();
        meanings.sort();
        meanings.dedup();
        if meanings.len() != n {
            ctx.fail(&format!("coded:{field}:distinct_codes_same_meaning"), || format!("{:?}", meanings), || json!({"op": "coded_distinct", "field": field}));
        }
    }
    let Some(base) = decode_g(ctx, &rda_in_domain()) else { return aborted(ctx) };
    let sraw: Stats = (0u32..65536)
        .into_par_iter()
        .fold(Stats::new, |mut st, raw| {
            check_raw(ctx, &base, raw as u16, &mut st);
            st.nontrivial(&[b'r', (raw >> 8) as u8, raw as u8]);
            st
        })
        .reduce(Stats::new, Stats::merge);
    stats = stats.merge(sraw);
    // the same raw sweep on other base messages (an accessor must depend only on its own
    // halfword, whatever the other 59 hold), and raw, raw^bit, raw sequences on one thread
    for bp in [0u8, 1] {
        let Some(alt) = decode_g(ctx, &plan(bp)) else { continue };
        let s_alt: Stats = (0u32..65536)
            .into_par_iter()
            .fold(Stats::new, |mut st, raw| {
                check_raw(ctx, &alt, raw as u16, &mut st);
                if bp == 0 {
                    for b in 0..16 {
                        check_raw(ctx, &base, raw as u16 ^ (1 << b), &mut st);
                        check_raw(ctx, &base, raw as u16, &mut st);
                    }
                }
                st
            })
            .reduce(Stats::new, Stats::merge);
        stats = stats.merge(s_alt);
    }
    // alarm lookup: every ordered pair of codes 0..=820 looked up back to back
    let spairs: Stats = (0u32..=820)
        .into_par_iter()
        .fold(Stats::new, |mut st, a| {
            for b in 0u32..=820 {
                let r = guarded(|| (rda::alarm::get_alarm_message(a as u16).map(|d| d.code()), rda::alarm::get_alarm_message(b as u16).map(|d| d.code())));
                st.evaluations += 1;
                let exp = |c: u32| if c <= 800 { Some(c as u16) } else { None };
                if r != Caught::Ret((exp(a), exp(b))) {
                    ctx.fail("history:alarm_lookup_depends_on_previous_lookup", || format!("lookup {a} then {b}: {:?}", r), || json!({"op": "alarm_pair", "a": a, "b": b}));
                }
            }
            st.count("alarm_lookup_pairs", 821);
            st
        })
        .reduce(Stats::new, Stats::merge);
    stats = stats.merge(spairs);
    // alarm arrays: all placements of <= 2 (thorough: <= 3) non-zero codes among 14 slots
    let pool: [u16; 5] = [14, 700, 800, 1, 398];
    let mut n_arrays = 0u64;
    check_alarm_array(ctx, [0; 14], &mut stats);
    for i in 0..14 {
        for (ci, c) in pool.iter().enumerate() {
            let mut a = [0u16; 14];
            a[i] = *c;
            check_alarm_array(ctx, a, &mut stats);
            stats.nontrivial(format!("a{i}/{ci}").as_bytes());
            n_arrays += 1;
            for j in (i + 1)..14 {
                let mut b = a;
                b[j] = pool[(ci + 1) % pool.len()];
                check_alarm_array(ctx, b, &mut stats);
                stats.nontrivial(format!("a{i}/{j}/{ci}").as_bytes());
                n_arrays += 1;
                if thorough {
                    for k in (j + 1)..14 {
                        let mut c3 = b;
                        c3[k] = pool[(ci + 2) % pool.len()];
                        check_alarm_array(ctx, c3, &mut stats);
                        stats.nontrivial(format!("a{i}/{j}/{k}/{ci}").as_bytes());
                        n_arrays += 1;
                    }
                }
            }
        }
    }
    // full and out-of-table arrays
    check_alarm_array(ctx, [14, 15, 16, 17, 20, 24, 25, 27, 700, 701, 702, 800, 1, 2], &mut stats);
    check_alarm_array(ctx, [801, 0, 65535, 14, 0, 0, 900, 0, 0, 0, 0, 0, 0, 700], &mut stats);
    stats.count("alarm_arrays", n_arrays + 3);
    // environment answers: readers that return short reads (sockets, pipes, BufReader edges)
    {
        use crate::guard::{short_read_check, SplitReader};
        for p in [0u8, 1, 2] {
            let bytes = rda_body(&plan(p));
            let n = short_read_check(ctx, "decode_rda_status_message", &bytes, true, |r: &mut SplitReader| rda::decode_rda_status_message(r).ok(), |shape| json!({"op": "short_read", "plan": p, "boundaries": shape.0, "max_chunk": shape.1}));
            stats.evaluations += n;
            stats.count("short_read_shapes", n);
            let n = crate::guard::two_actor_check(ctx, "decode_rda_status_message", &bytes, 32, |r: &mut SplitReader| rda::decode_rda_status_message(r).ok(), |mode, k| json!({"op": "short_read", "plan": p, "mode": mode, "read_call": k}));
            stats.evaluations += n;
            stats.count("two_actor_schedules", n);
        }
        // 120 messages back to back through one reader whose reads stop at multiples of 8192 - k
        let one = rda_body(&rda_in_domain());
        let mut stream = Vec::new();
        for i in 0..120u16 {
            let mut hw = rda_in_domain();
            hw[4] = 700 + i;
            hw[59] = i;
            stream.extend(rda_body(&hw));
        }
        let _ = one;
        for off in [0usize, 1, 7, 60, 119] {
            let bounds: Vec<usize> = (1..3).map(|k| k * 8192 - off).collect();
            let mut rd = SplitReader::new(stream.clone(), bounds.clone(), usize::MAX);
            for i in 0..120u16 {
                stats.evaluations += 1;
                match guarded(|| rda::decode_rda_status_message(&mut rd)) {
                    Caught::Ret(Ok(m)) => {
                        if m.average_transmitter_power != 700 + i || m.status_version != i || m.rda_status != 16 {
                            ctx.fail("short_reads:message_stream:different_value", || format!("message #{i} of a 120-message stream read through boundaries {:?}: power {} version {}", bounds, m.average_transmitter_power, m.status_version), || json!({"op": "short_read_stream", "offset": off, "message": i}));
                            break;
                        }
                    }
                    other => {
                        ctx.fail("short_reads:message_stream:failed", || format!("message #{i}: {:?}", other.ret().map(|r| r.is_ok())), || json!({"op": "short_read_stream", "offset": off, "message": i}));
                        break;
                    }
                }
            }
        }
    }
    stats.sample(3, || json!({"coded_example": {"field": "rda_control_authorization", "code": 2, "got": guarded(|| { let mut hw = rda_in_domain(); hw[8] = 2; coded_accessor(&decode(&hw), "rda_control_authorization") }).ret()}}));
    stats.sample(3, || json!({"alarm_lookup": {"code": 398, "message": rda::alarm::get_alarm_message(398).map(|d| d.message().to_string())}}));
    let cov = stats.coverage(
        "5 value plans over all 60 halfwords (table covers every halfword); every documented (code, meaning) pair of 14 coded fields incl. pairwise distinctness; all 65536 raw values through every flag accessor (exact mask, hence insensitive to all other bits), scaled values, build rule, VCP sign rule, clutter-segment subsets, alarm lookup; alarm arrays: all placements of <=2 (thorough <=3) non-zero codes among 14 slots; short-read environment: a reader boundary at every offset of the 120-byte message, fixed chunk sizes, and a 120-message stream read through BufReader-like boundaries must decode identically",
        true,
        json!({"alarm_pool": pool}),
    );
    (
        "exploration",
        cov,
        vec![
            "code/bit tables by numeric value from the field documentation (DESIGN Appendix B, provenance D)",
            "undocumented codes are unconstrained (accessors are documented to panic there)",
            "VCP raw 0x8000 magnitude not representable in i16: only local/remote checked",
        ],
    )
}

pub fn replay(ctx: &'static Ctx, case: &Value) {
    let mut st = Stats::new();
    match case["op"].as_str() {
        Some("layout") => check_layout(ctx, case["plan"].as_u64().unwrap_or(0) as u8, &mut st),
        Some("coded") => {
            let field = case["field"].as_str().unwrap_or("");
            for (f, hwno, table) in coded_tables() {
                if f == field {
                    for (code, meaning) in table {
                        if code as u64 == case["code"].as_u64().unwrap_or(u64::MAX) {
                            check_coded(ctx, f, hwno, code, meaning, &mut st);
                        }
                    }
                }
            }
        }
        Some("decode") => {
            let mut hw = [0u16; 60];
            for (i, x) in case["halfwords"].as_array().cloned().unwrap_or_default().iter().enumerate().take(60) {
                hw[i] = x.as_u64().unwrap_or(0) as u16;
            }
            println!("replay decode: {:?}", decode_g(ctx, &hw).is_some());
        }
        Some("raw") => {
            if let Some(m) = decode_g(ctx, &rda_in_domain()) {
                check_raw(ctx, &m, case["raw"].as_u64().unwrap_or(0) as u16, &mut st)
            }
        }
        Some("alarm_pair") | Some("short_read") | Some("short_read_stream") => {
            let _ = run(ctx);
        }
        Some("alarms") => {
            let mut a = [0u16; 14];
            if let Some(arr) = case["codes"].as_array() {
                for (i, v) in arr.iter().take(14).enumerate() {
                    a[i] = v.as_u64().unwrap_or(0) as u16;
                }
            }
            check_alarm_array(ctx, a, &mut st);
        }
        _ => {
            let _ = run(ctx);
        }
    }
    println!("replay C12 {:?} -> {:?}", case, st.outcomes);
}
