//! C20 — every feature combination of the four crates builds.
//! E5: enumerate the feature powerset derived from the manifests and run `cargo check` on each.

use crate::core::*;
use rayon::prelude::*;
use serde_json::{json, Value};
use std::collections::BTreeSet;
use std::process::Command;
use std::sync::atomic::{AtomicUsize, Ordering};

#[derive(Clone, Debug)]
pub struct CrateSpec {
    pub name: String,
    pub named: Vec<String>,    // [features] keys except default
    pub optional: Vec<String>, // optional dependencies (implicit features)
    pub examples: Vec<(String, Vec<String>)>,
    /// dependencies on other crates of the workspace (`path = "../<crate>"`), optional or not
    pub local_deps: Vec<String>,
}

/// Minimal manifest reader: `[features]` keys, `optional = true` dependencies, `[[example]]` blocks.
pub fn read_manifest(dir: &str) -> CrateSpec {
    let text = std::fs::read_to_string(format!("/repo/{dir}/Cargo.toml")).unwrap_or_else(|e| machinery(&format!("read manifest {dir}: {e}")));
    let mut section = String::new();
    let mut named = Vec::new();
    let mut optional = Vec::new();
    let mut examples: Vec<(String, Vec<String>)> = Vec::new();
    let mut name = dir.to_string();
    let mut local_deps = Vec::new();
    for line in text.lines() {
        let l = line.trim();
        if l.starts_with('#') || l.is_empty() {
            continue;
        }
        if l.starts_with('[') {
            section = l.to_string();
            if l == "[[example]]" {
                examples.push((String::new(), vec![]));
            }
            continue;
        }
        let Some((k, v)) = l.split_once('=') else { continue };
        let (k, v) = (k.trim(), v.trim());
        match section.as_str() {
            "[package]" if k == "name" => name = v.trim_matches('"').to_string(),
            "[features]" if k != "default" => named.push(k.to_string()),
            "[dependencies]" => {
                if v.contains("path =") || v.contains("path=") {
                    local_deps.push(k.to_string());
                }
                if v.contains("optional = true") || v.contains("optional=true") {
                    optional.push(k.to_string());
                }
            }
            "[[example]]" => {
                if let Some(e) = examples.last_mut() {
                    if k == "name" {
                        e.0 = v.trim_matches('"').to_string();
                    } else if k == "required-features" {
                        e.1 = v.trim_matches(|c| c == '[' || c == ']').split(',').map(|x| x.trim().trim_matches('"').to_string()).filter(|x| !x.is_empty()).collect();
                    }
                }
            }
            _ => {}
        }
    }
    CrateSpec { name, named, optional, examples, local_deps }
}

#[derive(Clone, Debug)]
pub struct Job {
    pub krate: String,
    /// None = default features; Some(set) = --no-default-features --features set
    pub features: Option<Vec<String>>,
    pub all_features: bool,
    pub examples: bool,
    /// build profile: dev (debug_assertions on) or release (debug_assertions off)
    pub release: bool,
}

fn powerset(items: &[String]) -> Vec<Vec<String>> {
    (0u32..(1 << items.len())).map(|m| items.iter().enumerate().filter(|(i, _)| m & (1 << i) != 0).map(|(_, x)| x.clone()).collect()).collect()
}

pub fn jobs(thorough: bool) -> (Vec<Job>, Vec<CrateSpec>) {
    let specs: Vec<CrateSpec> = ["nexrad-model", "nexrad-decode", "nexrad-data", "nexrad"].iter().map(|d| read_manifest(d)).collect();
    let mut out = Vec::new();
    for s in &specs {
        let mut all: Vec<String> = s.named.clone();
        all.extend(s.optional.iter().cloned());
        all.sort();
        all.dedup();
        let sets: Vec<Vec<String>> = if thorough || all.len() <= 5 {
            powerset(&all)
        } else {
            // quick: the named-feature powerset, every single optional dependency on top of nothing
            // and on top of all named features, and every set lacking exactly one feature
            let mut v = powerset(&s.named);
            for o in &s.optional {
                v.push(vec![o.clone()]);
                let mut x = s.named.clone();
                x.push(o.clone());
                v.push(x);
            }
            for i in 0..all.len() {
                v.push(all.iter().enumerate().filter(|(j, _)| *j != i).map(|(_, x)| x.clone()).collect());
                // every pair and every triple of features (3-way interaction coverage)
                for j in (i + 1)..all.len() {
                    v.push(vec![all[i].clone(), all[j].clone()]);
                    for k in (j + 1)..all.len() {
                        v.push(vec![all[i].clone(), all[j].clone(), all[k].clone()]);
                    }
                }
            }
            v
        };
        let mut seen = BTreeSet::new();
        for mut set in sets {
            set.sort();
            set.dedup();
            if !seen.insert(set.clone()) {
                continue;
            }
            let ex = !s.examples.is_empty() && s.examples.iter().any(|(_, req)| req.iter().all(|r| set.contains(r)));
            // the library alone (building examples would pull in dev-dependencies, whose features
            // unify with the crate's own and can mask a missing cfg gate)
            out.push(Job { krate: s.name.clone(), features: Some(set.clone()), all_features: false, examples: false, release: false });
            if ex {
                out.push(Job { krate: s.name.clone(), features: Some(set), all_features: false, examples: true, release: false });
            }
        }
        // the cross-crate product: features of a workspace dependency switched on from outside
        // (`--features <dep>/<feature>`, what a consumer depending on both crates causes), on top of
        // a few of the crate's own sets that include that dependency
        for dep in &s.local_deps {
            let Some(ds) = specs.iter().find(|x| &x.name == dep) else { continue };
            let mut dfeat: Vec<String> = ds.named.clone();
            dfeat.extend(ds.optional.iter().cloned());
            dfeat.sort();
            dfeat.dedup();
            if dfeat.is_empty() {
                continue;
            }
            let dsets: Vec<Vec<String>> = if dfeat.len() <= 3 || thorough && dfeat.len() <= 5 {
                powerset(&dfeat).into_iter().filter(|x| !x.is_empty()).collect()
            } else {
                let mut v: Vec<Vec<String>> = dfeat.iter().map(|f| vec![f.clone()]).collect();
                v.push(dfeat.clone());
                v
            };
            let dep_is_optional = s.optional.contains(dep);
            let mut own: Vec<Vec<String>> = vec![if dep_is_optional { vec![dep.clone()] } else { vec![] }];
            own.push(all.clone());
            // every own set that lacks exactly one feature (and still has the dependency)
            for i in 0..all.len() {
                let v: Vec<String> = all.iter().enumerate().filter(|(j, _)| *j != i).map(|(_, x)| x.clone()).collect();
                if !dep_is_optional || v.contains(dep) {
                    own.push(v);
                }
            }
            if !thorough && own.len() > 3 {
                own.truncate(3);
            }
            for o in &own {
                for d in &dsets {
                    let mut set = o.clone();
                    set.extend(d.iter().map(|f| format!("{dep}/{f}")));
                    set.sort();
                    set.dedup();
                    if seen.insert(set.clone()) {
                        out.push(Job { krate: s.name.clone(), features: Some(set), all_features: false, examples: false, release: false });
                    }
                }
            }
        }
        for ex in [false, true] {
            if ex && s.examples.is_empty() {
                continue;
            }
            out.push(Job { krate: s.name.clone(), features: None, all_features: false, examples: ex, release: false });
            out.push(Job { krate: s.name.clone(), features: None, all_features: true, examples: ex, release: false });
        }
    }
    // the build profile is a second configuration axis (cfg(debug_assertions) gates code too, and
    // debug_assert! arguments are type-checked but not evaluated in release): every job in both
    let rel: Vec<Job> = out.iter().cloned().map(|mut j| { j.release = true; j }).collect();
    out.extend(rel);
    (out, specs)
}

pub fn run_job(j: &Job, target_dir: &str) -> (bool, String) {
    let mut cmd = Command::new("cargo");
    cmd.current_dir("/repo").env("CARGO_TARGET_DIR", target_dir).env("CARGO_NET_OFFLINE", "true").env("CARGO_TERM_COLOR", "never")
        // what distinguishes the two profiles for this property is cfg(debug_assertions) and what
        // gets type-checked / instantiated, not optimisation: keep the artefacts small and quick
        .env("CARGO_PROFILE_RELEASE_OPT_LEVEL", "0")
        .env("CARGO_PROFILE_RELEASE_DEBUG", "0")
        .env("CARGO_PROFILE_DEV_DEBUG", "0")
        .env("CARGO_INCREMENTAL", "0");
    // the library is really built (type checking alone does not evaluate what is only decided at
    // monomorphisation: inline `const { assert!(..) }` blocks, associated consts of generic impls);
    // examples are type-checked
    cmd.args([if j.examples { "check" } else { "build" }, "--offline", "--quiet", "-p", &j.krate]);
    if j.all_features {
        cmd.arg("--all-features");
    } else if let Some(f) = &j.features {
        cmd.arg("--no-default-features");
        if !f.is_empty() {
            cmd.args(["--features", &f.join(",")]);
        }
    }
    if j.release {
        cmd.arg("--release");
    }
    if j.examples {
        cmd.arg("--examples");
    } else {
        cmd.arg("--lib");
    }
    match cmd.output() {
        Ok(o) => {
            let err = String::from_utf8_lossy(&o.stderr).to_string();
            (o.status.success(), err)
        }
        Err(e) => (false, format!("cannot run cargo: {e}")),
    }
}

fn first_error(stderr: &str) -> String {
    let line = stderr.lines().find(|l| l.starts_with("error")).unwrap_or("error: unknown");
    // normalise: drop backticked identifiers' paths that vary little; keep code and first words
    let words: Vec<&str> = line.split_whitespace().take(8).collect();
    words.join("_").replace(['`', ':', '"'], "")
}

pub fn run(ctx: &'static Ctx) -> (&'static str, Value, Vec<&'static str>) {
    let thorough = ctx.tier.thorough();
    let (js, specs) = jobs(thorough);
    let workers = 12;
    let pool = rayon::ThreadPoolBuilder::new().num_threads(workers).build().unwrap_or_else(|e| machinery(&format!("thread pool: {e}")));
    let next_dir = AtomicUsize::new(0);
    thread_local! { static DIR: std::cell::Cell<usize> = const { std::cell::Cell::new(usize::MAX) }; }
    // a fixed assignment of invocations to target directories (by a hash of the job, so that it is
    // stable when the job list grows) keeps each directory's cargo cache warm from run to run
    let _ = (&next_dir, &DIR);
    let dir_of = |j: &Job| -> usize { (fnv64(format!("{}|{:?}|{}|{}|{}", j.krate, j.features, j.all_features, j.examples, j.release).as_bytes()) % workers as u64) as usize };
    let mut buckets: Vec<Vec<(usize, &Job)>> = (0..workers).map(|_| Vec::new()).collect();
    for (i, j) in js.iter().enumerate() {
        buckets[dir_of(j)].push((i, j));
    }
    let stats: Stats = pool.install(|| {
        buckets
            .par_iter()
            .enumerate()
            .flat_map_iter(|(d, b)| b.iter().map(move |(i, j)| (d, *i, *j)))
            .fold(Stats::new, |mut st, (d, i, j)| {
                let dir = format!("/verif/.target/c20-{d}");
                let (ok, stderr) = run_job(j, &dir);
                st.eval();
                st.dim("crate", &j.krate);
                st.dim("with_examples", j.examples);
                st.dim("profile", if j.release { "release" } else { "dev" });
                let label = match (&j.features, j.all_features) {
                    (_, true) => "--all-features".to_string(),
                    (None, _) => "default".to_string(),
                    (Some(f), _) => format!("[{}]", f.join(",")),
                };
                if ok {
                    st.outcome("builds");
                } else {
                    st.outcome("fails");
                    let what = if stderr.contains("examples/") { "examples" } else { "lib" };
                    ctx.fail(
                        &format!("build:{}:{what}:{}:{}", j.krate, if j.release { "release" } else { "dev" }, first_error(&stderr)),
                        || format!("cargo check{} -p {} {label} failed:\n{}", if j.release { " --release" } else { "" }, j.krate, stderr.lines().filter(|l| l.starts_with("error") || l.trim_start().starts_with("-->")).take(8).collect::<Vec<_>>().join("\n")),
                        || json!({"crate": j.krate, "features": j.features, "all_features": j.all_features, "examples": j.examples, "release": j.release}),
                    );
                }
                if j.features.as_ref().map(|f| f.len() >= 2).unwrap_or(false) {
                    st.nontrivial(format!("{}{label}", j.krate).as_bytes());
                }
                if i % 97 == 3 {
                    st.sample(5, || json!({"crate": j.krate, "features": label, "examples": j.examples, "builds": ok}));
                }
                st
            })
            .reduce(Stats::new, Stats::merge)
    });
    let cov = stats.coverage(
        "features derived from the four manifests ([features] keys + optional dependencies); thorough = the complete powerset per crate (model 2^3, decode 2^2, data 2^11 incl. verif-hooks, facade 2^3), quick = full powersets of the small crates and, for nexrad-data, the named-feature powerset + every optional dependency alone and on top of the named features + every pair and every triple of features (3-way interaction coverage) + every all-but-one set; the library is always checked alone (--lib) and the examples in a separate invocation, because dev-dependency feature unification can mask a missing cfg gate; plus the cross-crate product (features of a workspace dependency enabled from outside, `dep/feature`, on top of the minimal, full and all-but-one own sets); plus default and --all-features; every invocation in both build profiles (dev: debug_assertions on; --release: off); examples are checked whenever their required-features are enabled. Oracle = exit status of `cargo check --offline`. non-trivial = >= 2 features enabled",
        thorough,
        json!({"crates": specs.iter().map(|s| json!({"name": s.name, "named": s.named, "optional": s.optional, "examples": s.examples.iter().map(|e| e.0.clone()).collect::<Vec<_>>()})).collect::<Vec<_>>(), "invocations": js.len(), "parallel_target_dirs": workers}),
    );
    (
        "exploration",
        cov,
        vec!["cargo check (type checking, no codegen) is the build oracle", "feature-equivalent sets share a cargo fingerprint", "dependencies resolved offline from the vendored registry cache and /repo/Cargo.lock"],
    )
}

pub fn replay(ctx: &'static Ctx, case: &Value) {
    let j = Job {
        krate: case["crate"].as_str().unwrap_or("nexrad-data").to_string(),
        features: case["features"].as_array().map(|a| a.iter().filter_map(|x| x.as_str().map(|s| s.to_string())).collect()),
        all_features: case["all_features"].as_bool().unwrap_or(false),
        examples: case["examples"].as_bool().unwrap_or(false),
        release: case["release"].as_bool().unwrap_or(false),
    };
    let (ok, stderr) = run_job(&j, "/verif/.target/c20-0");
    println!("replay C20 {:?}: builds={ok}\n{}", j, stderr.lines().filter(|l| l.starts_with("error")).take(5).collect::<Vec<_>>().join("\n"));
    if !ok {
        let what = if stderr.contains("examples/") { "examples" } else { "lib" };
        ctx.fail(&format!("build:{}:{what}:{}:{}", j.krate, if j.release { "release" } else { "dev" }, first_error(&stderr)), || stderr.clone(), || case.clone());
    }
}
