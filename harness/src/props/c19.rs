//! C19 — chunk-to-elevation mapping and next-chunk time estimates follow the VCP.
//! E3 over all cut lists / sequences and E2 (stateright) over histories of recorded timings.

use crate::core::*;
use crate::enc::*;
use chrono::{DateTime, Duration, TimeZone, Utc};
use nexrad_data::aws::realtime::{
    estimate_next_chunk_time, get_elevation_from_chunk, ChunkCharacteristics, ChunkIdentifier, ChunkTimingStats, ChunkType, VolumeIndex,
};
use nexrad_decode::messages::volume_coverage_pattern as vcp;
use rayon::prelude::*;
use serde_json::{json, Value};
use stateright::{Checker, Model, Property};
use std::sync::atomic::{AtomicU64, Ordering};
use std::sync::{Arc, Mutex};

/// cuts: (half_degree, waveform code, channel code); each cut's elevation angle raw = 8 * (index+1)
pub fn vcp_message(cuts: &[(bool, u8, u8)]) -> vcp::Message {
    let cs: Vec<VcpCut> = cuts
        .iter()
        .enumerate()
        .map(|(i, (half, wf, ch))| VcpCut::new(8 * (i as u16 + 1), *ch, *wf, if *half { 1 } else { 0 }, i as u16))
        .collect();
    let body = vcp_body(&vcp_header_hw(212, cuts.len() as u16), &cs);
    vcp::decode_volume_coverage_pattern(&mut body.as_slice()).expect("reference VCP decodes")
}

fn ref_cut(seq: usize, cuts: &[(bool, u8, u8)]) -> Option<usize> {
    if seq <= 1 {
        return None;
    }
    let mut upto = 1;
    for (i, c) in cuts.iter().enumerate() {
        upto += if c.0 { 6 } else { 3 };
        if seq <= upto {
            return Some(i);
        }
    }
    None
}

fn t0() -> DateTime<Utc> {
    Utc.with_ymd_and_hms(2024, 8, 13, 12, 33, 30).single().expect("valid date")
}

fn chunk(seq_text: &str, with_time: bool) -> ChunkIdentifier {
    ChunkIdentifier::new("KDMX".into(), VolumeIndex::new(17), format!("20240813-123330-{seq_text}-I"), if with_time { Some(t0()) } else { None })
}

fn wf_name(code: u8) -> &'static str {
    match code {
        1 => "CS",
        2 => "CDW",
        3 => "CDWO",
        4 => "B",
        5 => "SPP",
        _ => "Unknown",
    }
}

fn default_wait(wf: u8, ch: u8) -> i64 {
    if wf == 1 {
        11_000
    } else if ch == 0 {
        7_000
    } else {
        4_000
    }
}

fn check_mapping(ctx: &Ctx, cuts: &[(bool, u8, u8)], max_seq: usize, st: &mut Stats) {
    let m = vcp_message(cuts);
    let halves: Vec<bool> = cuts.iter().map(|c| c.0).collect();
    let mut last: Option<usize> = None;
    let mut ended = false;
    for seq in 0..=max_seq {
        st.evaluations += 1;
        let wit = || json!({"op": "mapping", "half_degree": halves, "sequence": seq});
        let got = match guarded(|| get_elevation_from_chunk(seq, &m.elevations).map(|e| (e.elevation_angle / 8) as usize - 1)) {
            Caught::Ret(g) => g,
            Caught::Panic(p) => {
                ctx.fail("mapping:panic", || p.clone(), wit);
                continue;
            }
        };
        if seq == 0 {
            continue; // "every chunk sequence from 1 upward"
        }
        let exp = ref_cut(seq, cuts);
        if got != exp {
            let sig = if seq == 1 {
                "mapping:chunk_1_maps_to_a_cut"
            } else if exp.is_none() {
                "mapping:cut_beyond_last"
            } else if got.is_none() {
                "mapping:none_inside_cut_range"
            } else {
                "mapping:wrong_cut"
            };
            ctx.fail(sig, || format!("cuts(half-degree)={:?} sequence {seq}: got {:?} expected {:?}", halves, got, exp), wit);
        }
        // monotone and none beyond the end
        if let Some(g) = got {
            if ended {
                ctx.fail("mapping:some_after_none", || format!("{:?} seq {seq}", halves), wit);
            }
            if let Some(l) = last {
                if g < l {
                    ctx.fail("mapping:not_monotone", || format!("{:?} seq {seq}", halves), wit);
                }
            }
            last = Some(g);
        } else if seq > 1 {
            ended = true;
        }
    }
}

/// Estimate without history across previous sequences and cut characteristics.
fn check_estimate_static(ctx: &Ctx, st: &mut Stats) {
    for wf in 0..=6u8 {
        for ch in 0..=3u8 {
            for half in [true, false] {
                // ten identical cuts: covers chunks 2..=61 (half) or 2..=31
                let cuts = vec![(half, wf, ch); 10];
                let m = vcp_message(&cuts);
                let empty = ChunkTimingStats::new();
                for prev in 0..=60usize {
                    for (mode, stats) in [("none", None), ("empty", Some(&empty))] {
                        for with_time in [true, false] {
                            st.evaluations += 1;
                            let wit = || json!({"op": "estimate_static", "waveform": wf, "channel": ch, "half_degree": half, "previous": prev, "stats": mode, "with_time": with_time});
                            let id = chunk(&format!("{:03}", prev), with_time);
                            let before = Utc::now();
                            let got = match guarded(|| estimate_next_chunk_time(&id, &m, stats)) {
                                Caught::Ret(g) => g,
                                Caught::Panic(p) => {
                                    ctx.fail("estimate:panic", || p.clone(), wit);
                                    continue;
                                }
                            };
                            let after = Utc::now();
                            let exp_wait: Option<i64> = if !(1..=55).contains(&prev) {
                                None
                            } else if prev == 55 {
                                Some(10_000)
                            } else {
                                ref_cut(prev + 1, &cuts).map(|_| default_wait(wf, ch))
                            };
                            match (got, exp_wait) {
                                (None, None) => st.outcome("estimate_none"),
                                (Some(g), Some(w)) => {
                                    if with_time {
                                        if g != t0() + Duration::milliseconds(w) {
                                            let sig = if prev == 55 { "estimate:after_end_chunk".to_string() } else { format!("estimate:default_wait:waveform={}:constant_phase={}", wf_name(wf), ch == 0) };
                                            ctx.fail(&sig, || format!("prev {prev} wf {wf} ch {ch}: got {:?}, expected previous + {w} ms", g - t0()), wit);
                                        }
                                        if g < t0() {
                                            ctx.fail("estimate:earlier_than_previous_upload", || format!("prev {prev}"), wit);
                                        }
                                    } else if g < before + Duration::milliseconds(w) - Duration::seconds(1) || g > after + Duration::milliseconds(w) + Duration::seconds(1) {
                                        // without an upload time the code falls back to the wall clock
                                        ctx.fail("estimate:no_upload_time_fallback", || format!("prev {prev}: {:?}", g), wit);
                                    }
                                    st.outcome("estimate_some");
                                }
                                (g, e) => {
                                    let sig = if e.is_none() {
                                        if (1..=55).contains(&prev) { "estimate:some_but_next_chunk_has_no_cut" } else { "estimate:some_for_sequence_outside_1..=55" }
                                    } else {
                                        "estimate:none_but_estimate_defined"
                                    };
                                    ctx.fail(sig, || format!("prev {prev} wf {wf} ch {ch} half {half}: got {:?} expected wait {:?}", g, e), wit);
                                }
                            }
                        }
                    }
                }
                st.nontrivial(&[b'e', wf, ch, half as u8]);
            }
        }
    }
    // unparsable previous sequences
    let m = vcp_message(&[(true, 1, 0); 10]);
    for text in ["", "abc", "-1", "1e1", "٣", "99999999999999999999999", "0x10", " 5"] {
        st.evaluations += 1;
        let id = ChunkIdentifier::new("KDMX".into(), VolumeIndex::new(1), format!("20240813-123330-{text}-I"), Some(t0()));
        let exp_none = text.parse::<usize>().map(|v| !(1..=55).contains(&v)).unwrap_or(true);
        match guarded(|| estimate_next_chunk_time(&id, &m, None)) {
            Caught::Ret(g) => {
                if exp_none && g.is_some() {
                    ctx.fail("estimate:some_for_unparsable_sequence", || format!("{:?}", text), || json!({"op": "estimate_unparsable", "text": text}));
                }
            }
            Caught::Panic(p) => ctx.fail("estimate:panic", || p.clone(), || json!({"op": "estimate_unparsable", "text": text})),
        }
    }
}

/// Wall-clock dimension: with a known upload time the estimate is a function of the upload time
/// alone; the thread's wall clock is moved around it (before, at, after, far before, far after).
fn check_estimate_clock(ctx: &Ctx, st: &mut Stats) {
    let mut filled = ChunkTimingStats::new();
    for wf in [1u8, 4] {
        for ch in [0u8, 2] {
            for half in [true, false] {
                let cuts = vec![(half, wf, ch); 10];
                let m = vcp_message(&cuts);
                for cut in 0..10 {
                    filled.add_timing(characteristics(&m, cut, ChunkType::Intermediate), Duration::milliseconds(5_000), 2);
                }
                for prev in [1usize, 2, 30, 54, 55] {
                    let id = chunk(&format!("{:03}", prev), true);
                    for (mode, stats) in [("none", None), ("filled", Some(&filled))] {
                        let base = crate::clock::with_thread_now_ms(t0().timestamp_millis() - 7 * 86_400_000, || guarded(|| estimate_next_chunk_time(&id, &m, stats)));
                        for delta in crate::props::c08::CLOCK_DELTAS_MS.iter().copied().chain([-20 * 365 * 86_400_000i64, 80 * 365 * 86_400_000i64]) {
                            st.evaluations += 1;
                            let now_ms = t0().timestamp_millis() + delta;
                            let got = crate::clock::with_thread_now_ms(now_ms, || guarded(|| estimate_next_chunk_time(&id, &m, stats)));
                            let wit = || json!({"op": "estimate_clock", "waveform": wf, "channel": ch, "half_degree": half, "previous": prev, "stats": mode, "now_ms": now_ms});
                            if got != base {
                                ctx.fail("clock:estimate_depends_on_wall_clock", || format!("prev {prev} wf {wf} ch {ch} stats {mode}, wall clock at upload time {delta:+} ms: {:?}; with the wall clock a week earlier: {:?}", got, base), wit);
                            }
                            if let Caught::Ret(Some(g)) = &got {
                                if *g < t0() {
                                    ctx.fail("estimate:earlier_than_previous_upload", || format!("prev {prev}, wall clock at upload time {delta:+} ms: {g:?}"), wit);
                                }
                            }
                        }
                    }
                }
                st.nontrivial(&[b'c', wf, ch, half as u8]);
            }
        }
    }
    st.count("wall_clock_relative_estimates", 1);
}

/// Resolution dimension: upload times with sub-millisecond (and sub-second) parts. The estimate is
/// "upload time plus wait", so moving the upload time by d nanoseconds moves the estimate by exactly
/// d, and the estimate is never before the upload time (zero-wait histories included).
fn check_estimate_resolution(ctx: &Ctx, st: &mut Stats) {
    let mut zero = ChunkTimingStats::new();
    let mut filled = ChunkTimingStats::new();
    for wf in [1u8, 4] {
        for ch in [0u8, 2] {
            for half in [true, false] {
                let cuts = vec![(half, wf, ch); 10];
                let m = vcp_message(&cuts);
                for cut in 0..10 {
                    for ty in [ChunkType::Intermediate, ChunkType::End] {
                        zero.add_timing(characteristics(&m, cut, ty), Duration::milliseconds(0), 1);
                        filled.add_timing(characteristics(&m, cut, ty), Duration::milliseconds(4_321), 3);
                    }
                }
                for prev in [1usize, 2, 30, 54, 55] {
                    for (mode, stats) in [("none", None), ("zero_wait_history", Some(&zero)), ("filled", Some(&filled))] {
                        let at = |ns: i64| ChunkIdentifier::new("KDMX".into(), VolumeIndex::new(17), format!("20240813-123330-{:03}-I", prev), Some(t0() + Duration::nanoseconds(ns)));
                        let base = guarded(|| estimate_next_chunk_time(&at(0), &m, stats));
                        for ns in [1i64, 999, 1_000, 999_999, 1_000_001, 123_456_789, 999_999_999] {
                            st.evaluations += 1;
                            let got = guarded(|| estimate_next_chunk_time(&at(ns), &m, stats));
                            let wit = || json!({"op": "estimate_resolution", "waveform": wf, "channel": ch, "half_degree": half, "previous": prev, "stats": mode, "upload_ns_offset": ns});
                            match (&base, &got) {
                                (Caught::Ret(Some(b)), Caught::Ret(Some(g))) => {
                                    if *g - *b != Duration::nanoseconds(ns) {
                                        ctx.fail("estimate:not_upload_time_plus_wait_at_sub_millisecond_resolution", || format!("prev {prev} stats {mode}: upload time moved by {ns} ns, estimate moved by {:?} ns", (*g - *b).num_nanoseconds()), wit);
                                    }
                                    if *g < t0() + Duration::nanoseconds(ns) {
                                        ctx.fail("estimate:earlier_than_previous_upload", || format!("prev {prev} stats {mode} upload +{ns} ns: {g:?}"), wit);
                                    }
                                }
                                (Caught::Ret(None), Caught::Ret(None)) => {}
                                (b, g) => ctx.fail("estimate:presence_depends_on_upload_time_resolution", || format!("{b:?} vs {g:?}"), wit),
                            }
                        }
                    }
                }
                st.nontrivial(&[b'r', wf, ch, half as u8]);
            }
        }
    }
    st.count("sub_millisecond_upload_times", 1);
}

// ---- rolling-window model ------------------------------------------------------------------

const SAMPLES: [(i64, usize); 3] = [(0, 1), (7_000, 2), (60_000, 5)];

/// key 0: (Intermediate, CS, ConstantPhase) reached by previous sequence 2 (cut 0);
/// key 1: (Intermediate, B, SZ2Phase) reached by previous sequence 8 (cut 1);
/// key 2: (End, CS, ConstantPhase) reached by previous 54 with nine half-degree cuts.
fn key_setup(key: usize) -> (Vec<(bool, u8, u8)>, usize, ChunkType, u8, u8) {
    match key {
        0 => (vec![(true, 1, 0), (false, 4, 2)], 2, ChunkType::Intermediate, 1, 0),
        1 => (vec![(true, 1, 0), (false, 4, 2)], 8, ChunkType::Intermediate, 4, 2),
        _ => (vec![(true, 1, 0); 9], 54, ChunkType::End, 1, 0),
    }
}

fn characteristics(m: &vcp::Message, cut: usize, ty: ChunkType) -> ChunkCharacteristics {
    ChunkCharacteristics { chunk_type: ty, waveform_type: m.elevations[cut].waveform_type(), channel_configuration: m.elevations[cut].channel_configuration() }
}

/// history: list of (key, sample index). Checks the estimate for every key against the reference
/// "mean of the last ten samples of that key".
thread_local! {
    /// how the statistics object under test is obtained: 0 = `new()`, 1 = `Default::default()`,
    /// 2 = `std::mem::take` of a used one, 3 = clone of a fresh one. A value's behaviour must not
    /// depend on which of its public constructors produced it.
    static CTOR: std::cell::Cell<u8> = const { std::cell::Cell::new(0) };
}

fn fresh_stats() -> ChunkTimingStats {
    match CTOR.with(|c| c.get()) {
        1 => ChunkTimingStats::default(),
        2 => {
            let mut used = ChunkTimingStats::new();
            let _ = std::mem::take(&mut used);
            used
        }
        3 => ChunkTimingStats::new().clone(),
        _ => ChunkTimingStats::new(),
    }
}

pub fn check_history(ctx: &Ctx, hist: &[(u8, u8)]) -> &'static str {
    let ctor = CTOR.with(|c| c.get());
    let wit = || json!({"op": "history", "history": hist.iter().map(|h| [h.0, h.1]).collect::<Vec<_>>(), "constructor": ctor});
    let mut outcome = "ok";
    let mut stats = fresh_stats();
    static SETUP: std::sync::OnceLock<(Vec<(Vec<(bool, u8, u8)>, usize, ChunkType, u8, u8)>, Vec<vcp::Message>, Vec<ChunkCharacteristics>)> = std::sync::OnceLock::new();
    let (setups, msgs, chars) = SETUP.get_or_init(|| {
        let setups: Vec<_> = (0..3).map(key_setup).collect();
        let msgs: Vec<vcp::Message> = setups.iter().map(|s| vcp_message(&s.0)).collect();
        let chars: Vec<ChunkCharacteristics> = (0..3)
            .map(|k| {
                let cut = ref_cut(setups[k].1 + 1, &setups[k].0).expect("setup maps to a cut");
                characteristics(&msgs[k], cut, setups[k].2)
            })
            .collect();
        (setups, msgs, chars)
    });
    let r = guarded(|| {
        for (k, s) in hist {
            let (ms, att) = SAMPLES[*s as usize];
            stats.add_timing(chars[*k as usize], Duration::milliseconds(ms), att);
        }
    });
    if let Caught::Panic(p) = r {
        ctx.fail("window:add_timing_panic", || p.clone(), wit);
        return "panic";
    }
    for k in 0..3usize {
        let mine: Vec<(i64, usize)> = hist.iter().filter(|h| h.0 as usize == k).map(|h| SAMPLES[h.1 as usize]).collect();
        let window: Vec<(i64, usize)> = mine.iter().rev().take(10).rev().copied().collect();
        let id = chunk(&format!("{:03}", setups[k].1), true);
        let got = match guarded(|| estimate_next_chunk_time(&id, &msgs[k], Some(&stats))) {
            Caught::Ret(g) => g,
            Caught::Panic(p) => {
                ctx.fail("window:estimate_panic", || p.clone(), wit);
                return "panic";
            }
        };
        let Some(got) = got else {
            ctx.fail("window:estimate_none_with_cut", || format!("key {k} history {:?}", hist), wit);
            return "none";
        };
        let wait_ms = (got - t0()).num_milliseconds();
        if wait_ms < 0 {
            ctx.fail("window:estimate_earlier_than_previous_upload", || format!("key {k}: {wait_ms} ms"), wit);
        }
        if window.is_empty() {
            let d = default_wait(setups[k].3, setups[k].4);
            if wait_ms != d {
                ctx.fail("window:default_used_wrongly_without_history", || format!("key {k}: wait {wait_ms} ms expected default {d}"), wit);
                outcome = "mismatch";
            }
        } else {
            let mean_ms = window.iter().map(|w| w.0 as f64).sum::<f64>() / window.len() as f64;
            let mean_att = window.iter().map(|w| w.1 as f64).sum::<f64>() / window.len() as f64;
            let exp = mean_ms + (mean_att - 1.0) * 1000.0;
            if (wait_ms as f64 - exp).abs() > 1000.0 {
                let sig = if mine.len() > 10 { "window:estimate_not_mean_of_last_ten" } else { "window:estimate_not_mean_of_history" };
                ctx.fail(sig, || format!("key {k}: wait {wait_ms} ms, reference {exp:.1} ms (window {:?}, {} samples recorded)", window, mine.len()), wit);
                outcome = "mismatch";
            }
        }
        // get_statistics agrees with the same window
        if let Caught::Ret(list) = guarded(|| stats.get_statistics()) {
            let entry = list.iter().find(|e| e.0 == chars[k]);
            match (entry, window.is_empty()) {
                (None, true) => {}
                (Some(e), false) => {
                    let mean_ms = window.iter().map(|w| w.0 as f64).sum::<f64>() / window.len() as f64;
                    let mean_att = window.iter().map(|w| w.1 as f64).sum::<f64>() / window.len() as f64;
                    let ok_d = e.1.map(|d| (d.num_milliseconds() as f64 - mean_ms).abs() <= 1.0).unwrap_or(false);
                    let ok_a = e.2.map(|a| (a - mean_att).abs() < 1e-9).unwrap_or(false);
                    if !ok_d || !ok_a {
                        ctx.fail("window:get_statistics_disagrees", || format!("key {k}: {:?} / {:?} vs {mean_ms} / {mean_att}", e.1, e.2), wit);
                        outcome = "mismatch";
                    }
                }
                (None, false) => {
                    ctx.fail("window:get_statistics_missing_key", || format!("key {k}"), wit);
                }
                (Some(_), true) => {
                    ctx.fail("window:get_statistics_key_without_samples", || format!("key {k}"), wit);
                }
            }
        }
    }
    outcome
}

#[derive(Clone)]
struct WindowModel {
    keys: u8,
    depth: usize,
    ctx: &'static Ctx,
    transitions: Arc<AtomicU64>,
    stats: Arc<Mutex<Stats>>,
}

impl Model for WindowModel {
    type State = Vec<(u8, u8)>;
    type Action = (u8, u8);
    fn init_states(&self) -> Vec<Self::State> {
        vec![vec![]]
    }
    fn actions(&self, s: &Self::State, a: &mut Vec<(u8, u8)>) {
        if s.len() < self.depth {
            for k in 0..self.keys {
                for x in 0..3u8 {
                    a.push((k, x));
                }
            }
        }
    }
    fn next_state(&self, s: &Self::State, a: (u8, u8)) -> Option<Self::State> {
        self.transitions.fetch_add(1, Ordering::Relaxed);
        let mut n = s.clone();
        n.push(a);
        Some(n)
    }
    fn properties(&self) -> Vec<Property<Self>> {
        vec![Property::always("estimate equals mean of last ten samples per key", |m: &WindowModel, s: &Vec<(u8, u8)>| {
            let o = check_history(m.ctx, s);
            let key: Vec<u8> = s.iter().map(|x| x.0 * 3 + x.1).collect();
            let mut st = m.stats.lock().unwrap_or_else(|e| e.into_inner());
            st.eval();
            st.outcome(o);
            st.dim("history_length", s.len());
            if s.len() >= 2 {
                st.nontrivial(&key);
            }
            if s.len() == 11 && s.iter().take(10).all(|x| x.1 == 2) && s[10].1 == 0 {
                st.sample(2, || json!({"history": "ten x (60 s, 5 attempts) then (0 s, 1 attempt)", "outcome": o}));
            }
            true
        })]
    }
}

pub fn run(ctx: &'static Ctx) -> (&'static str, Value, Vec<&'static str>) {
    let thorough = ctx.tier.thorough();
    // mapping: every cut list over {half, other} of length 0..=12 (quick 10)
    let maxlen = if thorough { 12 } else { 10 };
    let max_seq = if thorough { 200 } else { 100 };
    let mut lists: Vec<Vec<(bool, u8, u8)>> = Vec::new();
    for len in 0..=maxlen {
        for mask in 0u32..(1 << len) {
            lists.push((0..len).map(|i| (mask & (1 << i) != 0, 1 + (i % 5) as u8, (i % 3) as u8)).collect());
        }
    }
    for pat in 0..4 {
        lists.push((0..32).map(|i| (match pat { 0 => true, 1 => false, 2 => i % 2 == 0, _ => i % 3 == 0 }, 1, 0)).collect());
    }
    let s1: Stats = lists
        .par_iter()
        .fold(Stats::new, |mut st, cuts| {
            check_mapping(ctx, cuts, max_seq, &mut st);
            st.dim("cuts", cuts.len());
            st.nontrivial(format!("m{:?}", cuts.iter().map(|c| c.0).collect::<Vec<_>>()).as_bytes());
            if cuts.len() == 3 && cuts[0].0 && !cuts[1].0 && cuts[2].0 {
                let m = vcp_message(cuts);
                st.sample(2, || json!({"half_degree": [true, false, true], "sequence_to_cut": (1..=17).map(|s| get_elevation_from_chunk(s, &m.elevations).map(|e| e.elevation_angle / 8 - 1)).collect::<Vec<_>>()}));
            }
            st
        })
        .reduce(Stats::new, Stats::merge);
    
    let mut s2 = Stats::new();
    check_estimate_static(ctx, &mut s2);
    check_estimate_clock(ctx, &mut s2);
    check_estimate_resolution(ctx, &mut s2);
    
    // rolling window: stateright over histories
    let configs: Vec<(u8, usize)> = if thorough { vec![(1, 13), (2, 7), (3, 6)] } else { vec![(1, 11), (2, 5), (3, 4)] };
    let mut states = 0u64;
    let mut transitions = 0u64;
    let mut s3 = Stats::new();
    let mut reports = Vec::new();
    for (keys, depth) in configs {
        let tr = Arc::new(AtomicU64::new(0));
        let sh = Arc::new(Mutex::new(Stats::new()));
        let bfs = WindowModel { keys, depth, ctx, transitions: tr.clone(), stats: sh.clone() }.checker().threads(4).spawn_bfs().join();
        let u = bfs.unique_state_count() as u64;
        let k = keys as u64 * 3;
        let expected: u64 = (0..=depth as u32).map(|l| k.pow(l)).sum();
        if u != expected {
            machinery(&format!("C19 window model state count {u} != {expected}"));
        }
        
        reports.push(json!({"keys": keys, "depth": depth, "unique_states": u, "transitions": tr.load(Ordering::Relaxed)}));
        states += u;
        transitions += tr.load(Ordering::Relaxed);
        s3 = s3.merge(std::mem::take(&mut *sh.lock().unwrap()));
    }
    // long histories: 50 samples per key
    for pat in 0..3usize {
        let hist: Vec<(u8, u8)> = (0..50).map(|i| ((i % (pat + 1)) as u8, ((i * 7 + pat) % 3) as u8)).collect();
        let o = check_history(ctx, &hist);
        s3.eval();
        s3.outcome(o);
    }
    // constructor dimension: every history of length <= 4 (and the long ones) on statistics objects
    // obtained through Default, mem::take and Clone instead of new()
    for ctor in 1..=3u8 {
        CTOR.with(|c| c.set(ctor));
        for len in 0..=4usize {
            for w in words(9, len) {
                let hist: Vec<(u8, u8)> = w.iter().map(|x| ((*x / 3) as u8, (*x % 3) as u8)).collect();
                let o = check_history(ctx, &hist);
                s3.eval();
                s3.outcome(o);
            }
        }
        for pat in 0..3usize {
            let hist: Vec<(u8, u8)> = (0..50).map(|i| ((i % (pat + 1)) as u8, ((i * 7 + pat) % 3) as u8)).collect();
            let _ = check_history(ctx, &hist);
            s3.eval();
        }
        s3.count("histories_on_alternatively_constructed_statistics", 1);
    }
    CTOR.with(|c| c.set(0));
    // key isolation: the 3 chunk types x every waveform code 0..=6 x every channel code 0..=3 give
    // the complete set of distinct characteristics; for every ordered pair (a, b) of distinct keys,
    // two samples recorded for a and one for b must surface as exactly those two rows, and an
    // Intermediate key with history must leave the estimate for every other Intermediate key at
    // its static default
    {
        let combos: Vec<(u8, u8)> = (0..=6u8).flat_map(|w| (0..=3u8).map(move |c| (w, c))).collect();
        let cmsgs: Vec<vcp::Message> = combos.iter().map(|(w, c)| vcp_message(&[(false, *w, *c)])).collect();
        let mut keys: Vec<(usize, ChunkCharacteristics)> = Vec::new();
        for ty in [ChunkType::Start, ChunkType::Intermediate, ChunkType::End] {
            for (ci, m) in cmsgs.iter().enumerate() {
                let ch = characteristics(m, 0, ty);
                if !keys.iter().any(|k| k.1 == ch) {
                    keys.push((ci, ch));
                }
            }
        }
        let id2 = chunk("002", true);
        for (ia, (_, a)) in keys.iter().enumerate() {
            for (ib, (cb, b)) in keys.iter().enumerate() {
                if ia == ib {
                    continue;
                }
                let wit = || json!({"op": "key_isolation", "a": format!("{:?}", a), "b": format!("{:?}", b)});
                s3.eval();
                let r = guarded(|| {
                    let mut st = ChunkTimingStats::new();
                    st.add_timing(*a, Duration::milliseconds(7_000), 2);
                    st.add_timing(*a, Duration::milliseconds(7_000), 2);
                    let est = if a.chunk_type == ChunkType::Intermediate && b.chunk_type == ChunkType::Intermediate {
                        Some(estimate_next_chunk_time(&id2, &cmsgs[*cb], Some(&st)).map(|t| (t - t0()).num_milliseconds()))
                    } else {
                        None
                    };
                    st.add_timing(*b, Duration::milliseconds(60_000), 5);
                    let rows: Vec<(ChunkCharacteristics, Option<i64>, Option<f64>)> = st.get_statistics().into_iter().map(|e| (e.0, e.1.map(|d| d.num_milliseconds()), e.2)).collect();
                    (est, rows)
                });
                match r {
                    Caught::Panic(p) => ctx.fail("window:add_timing_panic", || p.clone(), wit),
                    Caught::Ret((est, rows)) => {
                        let row = |k: &ChunkCharacteristics| rows.iter().find(|e| e.0 == *k).map(|e| (e.1, e.2));
                        let ok = rows.len() == 2 && row(a) == Some((Some(7_000), Some(2.0))) && row(b) == Some((Some(60_000), Some(5.0)));
                        if !ok {
                            ctx.fail("window:distinct_characteristics_share_a_window", || format!("{:?} x2 (7 s, 2) then {:?} x1 (60 s, 5): rows {:?}", a, b, rows), wit);
                            s3.outcome("keys_aliased");
                        } else {
                            s3.outcome("keys_isolated");
                        }
                        if let Some(e) = est {
                            let (w, c) = combos[*cb];
                            let d = default_wait(w, c);
                            if e != Some(d) {
                                ctx.fail("window:history_of_other_characteristics_used", || format!("history only for {:?}; estimate for {:?} waits {:?} ms, static default {d} ms", a, b, e), wit);
                            }
                        }
                    }
                }
                s3.count("ordered_key_pairs", 1);
            }
        }
        s3.count("distinct_characteristics", keys.len() as u64);
    }
    // history: mapping / estimate calls with different cut lists back to back on one thread
    let lists: Vec<Vec<(bool, u8, u8)>> = vec![
        vec![(true, 1, 0), (false, 4, 2), (true, 2, 1)],
        vec![(false, 1, 0); 4],
        vec![],
        vec![(true, 5, 2); 9],
        vec![(false, 4, 0), (true, 1, 0), (false, 4, 0), (true, 1, 0), (true, 3, 1)],
    ];
    let hmsgs: Vec<vcp::Message> = lists.iter().map(|l| vcp_message(l)).collect();
    let sh = history_check(
        ctx,
        "mapping_and_estimate",
        lists.len() * 3,
        3,
        |k| {
            let (li, seq) = (k / 3, [2usize, 9, 20][k % 3]);
            let id = chunk(&format!("{:03}", seq), true);
            let r = guarded(|| {
                (
                    (1..=60usize).map(|s| get_elevation_from_chunk(s, &hmsgs[li].elevations).map(|e| e.elevation_angle)).collect::<Vec<_>>(),
                    estimate_next_chunk_time(&id, &hmsgs[li], None).map(|t| (t - t0()).num_milliseconds()),
                )
            });
            format!("{:?}", r)
        },
        |k| format!("cuts#{} prev={}", k / 3, [2, 9, 20][k % 3]),
    );
    let stats = s1.merge(s2).merge(s3).merge(sh);
    let mut cov = stats.coverage(
        "mapping: every cut list over {half-degree, other} of length 0..=10 (thorough 12) plus four 32-cut lists x sequences 0..=100 (200), each cut identified by a unique elevation angle; estimate without history: waveform 0..=6 x channel 0..=3 x resolution x previous sequence 0..=60 x {no stats, empty stats} x {with, without upload time}, unparsable sequences; rolling window: stateright BFS over histories of add_timing over {(0 s,1),(7 s,2),(60 s,5)} x 1 key to depth 11 (12), 2 keys to depth 5 (6), 3 keys (incl. the End-chunk key) to depth 4 (5): in every state the real estimate for every key must equal previous + mean(last <= 10 durations) + (mean attempts - 1) s within 1 s, get_statistics must agree; key isolation: every ordered pair of the distinct characteristics (3 chunk types x waveform codes 0..=6 x channel codes 0..=3) keeps separate windows and an Intermediate key's history never feeds another key's estimate. non-trivial = history of >= 2 samples / distinct cut list",
        true,
        json!({"window_models": reports, "max_cut_list_len": maxlen, "max_sequence": max_seq}),
    );
    cov["states"] = json!(states);
    cov["transitions"] = json!(transitions);
    cov["traces_validated_against_impl"] = json!(states);
    (
        "model_checking",
        cov,
        vec!["1 s tolerance on history-based estimates (rounding is not fixed by the property)", "reference cumulative-sum and rolling-mean models in harness"],
    )
}

pub fn replay(ctx: &'static Ctx, case: &Value) {
    let mut st = Stats::new();
    match case["op"].as_str() {
        Some("history") if case["what"].is_string() => {
            let _ = run(ctx);
        }
        Some("key_isolation") => {
            let _ = run(ctx);
        }
        Some("history") => {
            let h: Vec<(u8, u8)> = case["history"].as_array().map(|a| a.iter().map(|x| (x[0].as_u64().unwrap_or(0) as u8, x[1].as_u64().unwrap_or(0) as u8)).collect()).unwrap_or_default();
            CTOR.with(|c| c.set(case["constructor"].as_u64().unwrap_or(0) as u8));
            println!("replay history -> {}", check_history(ctx, &h));
            CTOR.with(|c| c.set(0));
        }
        Some("mapping") => {
            let halves: Vec<bool> = case["half_degree"].as_array().map(|a| a.iter().map(|x| x.as_bool().unwrap_or(false)).collect()).unwrap_or_default();
            let cuts: Vec<(bool, u8, u8)> = halves.iter().enumerate().map(|(i, h)| (*h, 1 + (i % 5) as u8, (i % 3) as u8)).collect();
            check_mapping(ctx, &cuts, 200, &mut st);
        }
        Some("estimate_clock") => check_estimate_clock(ctx, &mut st),
        Some("estimate_resolution") => check_estimate_resolution(ctx, &mut st),
        _ => check_estimate_static(ctx, &mut st),
    }
}
