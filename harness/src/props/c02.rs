//! C02 — type-31 radial messages decode field-exactly from the ICD layout.
//! E3: block sets x orders x pointer layouts x gate counts x word sizes x value plans, every
//! decoded field compared with the bytes at its table offset.

use crate::core::*;
use crate::enc::*;
use crate::t31::*;
use nexrad_decode::messages::digital_radar_data as drd;
use rayon::prelude::*;
use serde_json::{json, Value};

#[derive(Clone, Debug)]
pub struct Case {
    pub kinds: Vec<usize>, // pointer-table order
    pub layout: u8,
    pub gates: u16,
    pub ws: u8,
    pub plan: u8,
    pub start: usize,
    /// explicit physical order / per-position gaps (layout = 255)
    pub phys: Vec<usize>,
    pub gaps: Vec<usize>,
}

impl Case {
    fn json(&self) -> Value {
        json!({"kinds": self.kinds, "layout": self.layout, "gates": self.gates, "ws": self.ws, "plan": self.plan, "start": self.start, "phys": self.phys, "gaps": self.gaps})
    }
    fn from_json(v: &Value) -> Case {
        Case {
            kinds: v["kinds"].as_array().map(|a| a.iter().map(|x| x.as_u64().unwrap_or(0) as usize).collect()).unwrap_or_default(),
            layout: v["layout"].as_u64().unwrap_or(0) as u8,
            gates: v["gates"].as_u64().unwrap_or(0) as u16,
            ws: v["ws"].as_u64().unwrap_or(8) as u8,
            plan: v["plan"].as_u64().unwrap_or(0) as u8,
            start: v["start"].as_u64().unwrap_or(0) as usize,
            phys: v["phys"].as_array().map(|a| a.iter().map(|x| x.as_u64().unwrap_or(0) as usize).collect()).unwrap_or_default(),
            gaps: v["gaps"].as_array().map(|a| a.iter().map(|x| x.as_u64().unwrap_or(0) as usize).collect()).unwrap_or_default(),
        }
    }
}

pub fn layout_for(variant: u8, n: usize) -> Layout {
    match variant {
        0 => Layout::default(),
        1 => Layout { gap: 1, ..Default::default() },
        2 => Layout { gap: 7, ..Default::default() },
        3 => Layout { phys: (0..n).rev().collect(), ..Default::default() },
        _ => Layout { phys: (0..n).map(|i| (i + 1) % n.max(1)).collect(), gap: 3, ..Default::default() },
    }
}

pub fn build(c: &Case) -> (Vec<u8>, Vec<Block>, Vec<u32>) {
    let blocks: Vec<Block> = c.kinds.iter().map(|k| plan_block(*k, c.plan, c.gates, c.ws)).collect();
    let layout = if c.layout == 255 { Layout { phys: c.phys.clone(), gaps: c.gaps.clone(), ..Default::default() } } else { layout_for(c.layout, blocks.len()) };
    let (body, pos) = t31_body(&plan_header(c.plan), &blocks, &layout);
    let mut bytes = vec![0xC3u8; c.start];
    bytes.extend_from_slice(&body);
    (bytes, blocks, pos)
}

pub fn check_case(ctx: &Ctx, c: &Case) -> &'static str {
    let (bytes, blocks, _) = build(c);
    let body = bytes[c.start..].to_vec();
    let wit = || c.json();
    let start = c.start as u64;
    let r = guarded(move || {
        let mut cur = std::io::Cursor::new(bytes);
        cur.set_position(start);
        drd::decode_digital_radar_data(&mut cur)
    });
    let m = match r {
        Caught::Panic(p) => {
            ctx.fail(&format!("decode:panic:{}", panic_class(&p)), || format!("{:?}: {p}", c), wit);
            return "panic";
        }
        Caught::Ret(Err(e)) => {
            ctx.fail(
                &format!("decode:well_formed_rejected:layout={}:ws={}:gates={}", c.layout, c.ws, if c.gates > 1840 { ">1840" } else { "<=1840" }),
                || format!("{:?}: {:?}", c, e),
                wit,
            );
            return "rejected";
        }
        Caught::Ret(Ok(m)) => m,
    };
    let mut bad = false;
    for (name, got, exp) in header_mismatches(&m.header, &body) {
        ctx.fail(&format!("field:{name}"), || format!("{:?}: decoded {got:#x}, bytes hold {exp:#x}", c), wit);
        bad = true;
    }
    for (i, k) in c.kinds.iter().enumerate() {
        for (name, got, exp) in block_mismatches(&m, *k, &blocks[i].bytes) {
            let name = if name.contains("encoded_data[") { format!("{}.encoded_data", kind_label(*k)) } else { name };
            ctx.fail(
                &format!("field:{name}:ws={}", c.ws),
                || format!("{:?}: decoded {got:#x}, bytes hold {exp:#x}", c),
                wit,
            );
            bad = true;
        }
    }
    for k in 0..10 {
        if !c.kinds.contains(&k) && present(&m, k) {
            ctx.fail(&format!("absent_block_reported_present:{}", kind_label(k)), || format!("{:?}", c), wit);
            bad = true;
        }
    }
    if bad {
        "mismatch"
    } else {
        "exact"
    }
}

fn permutations(n: usize) -> Vec<Vec<usize>> {
    fn rec(cur: &mut Vec<usize>, used: &mut Vec<bool>, n: usize, out: &mut Vec<Vec<usize>>) {
        if cur.len() == n {
            out.push(cur.clone());
            return;
        }
        for i in 0..n {
            if !used[i] {
                used[i] = true;
                cur.push(i);
                rec(cur, used, n, out);
                cur.pop();
                used[i] = false;
            }
        }
    }
    let mut out = Vec::new();
    rec(&mut Vec::new(), &mut vec![false; n], n, &mut out);
    out
}

fn ordered_selections(max: usize) -> Vec<Vec<usize>> {
    let mut out = vec![vec![]];
    let mut frontier: Vec<Vec<usize>> = vec![vec![]];
    for _ in 0..max {
        let mut next = Vec::new();
        for w in &frontier {
            for k in 0..10 {
                if !w.contains(&k) {
                    let mut x = w.clone();
                    x.push(k);
                    next.push(x);
                }
            }
        }
        out.extend(next.iter().cloned());
        frontier = next;
    }
    out
}

pub fn run(ctx: &'static Ctx) -> (&'static str, Value, Vec<&'static str>) {
    let thorough = ctx.tier.thorough();
    let mut orders = ordered_selections(if thorough { 5 } else { 3 });
    for mask in 0u32..1024 {
        let canon: Vec<usize> = (0..10).filter(|k| mask & (1 << k) != 0).collect();
        orders.push(canon.clone());
        orders.push(canon.iter().rev().copied().collect());
    }
    orders.sort();
    orders.dedup();
    let layouts: Vec<u8> = if thorough { vec![0, 1, 2, 3, 4] } else { vec![0, 1, 2, 3] };
    let gates: Vec<u16> = if thorough { vec![0, 1, 2, 1840, 1841] } else { vec![0, 1, 1840, 1841] };
    let plans: Vec<u8> = if thorough { vec![0, 1, 2, 3, 4] } else { vec![0, 1] };
    let wss = [8u8, 16];
    let per_order = (layouts.len() * gates.len() * plans.len() * wss.len()) as u64;
    let total = orders.len() as u64 * per_order;
    let stats: Stats = (0..orders.len())
        .into_par_iter()
        .fold(Stats::new, |mut st, oi| {
            let kinds = &orders[oi];
            let mut idx = 0usize;
            for &layout in &layouts {
                for &g in &gates {
                    for &ws in &wss {
                        for &plan in &plans {
                            idx += 1;
                            // layouts are indistinguishable for < 2 blocks; gates/ws only matter with moments
                            let has_moment = kinds.iter().any(|k| *k >= 3);
                            if kinds.len() < 2 && layout >= 3 {
                                continue;
                            }
                            if !has_moment && (g != gates[0] || ws != 8) {
                                continue;
                            }
                            let c = Case { kinds: kinds.clone(), layout, gates: g, ws, plan, start: if (oi + idx) % 3 == 0 { 5 } else { 0 }, phys: vec![], gaps: vec![] };
                            let o = check_case(ctx, &c);
                            st.eval();
                            st.outcome(o);
                            st.dim("layout", layout);
                            st.dim("gates", g);
                            st.dim("word_size", ws);
                            st.dim("plan", plan);
                            st.dim("blocks", kinds.len());
                            if kinds.len() >= 2 {
                                st.nontrivial(format!("{:?}", c).as_bytes());
                            }
                            if oi % 997 == 5 && idx == 7 {
                                st.sample(4, || json!({"case": c.json(), "outcome": o, "message_bytes": build(&c).0.len()}));
                            }
                        }
                    }
                }
            }
            st
        })
        .reduce(Stats::new, Stats::merge);
    // layout-intensive sweep: for representative block sets, every physical permutation x every
    // per-block gap vector over {0, S, 3} x cursor start offset S (a gap equal to the start offset,
    // a seek after a contiguous block, ... are all in the product)
    let sets: Vec<Vec<usize>> = vec![vec![0, 3], vec![3, 7, 0], vec![1, 2, 3, 4], vec![0, 1, 2, 3, 7]];
    let starts: Vec<usize> = if thorough { vec![0, 1, 4, 5, 7, 28, 100, 2432] } else { vec![0, 1, 5, 28, 100] };
    let mut lcases: Vec<Case> = Vec::new();
    for kinds in &sets {
        let n = kinds.len();
        let perms = permutations(n);
        for &start in &starts {
            let galpha = [0usize, start, 3];
            for gv in words(3, n) {
                let gaps: Vec<usize> = gv.iter().map(|x| galpha[*x as usize]).collect();
                for (pi, phys) in perms.iter().enumerate() {
                    if !thorough && n >= 5 && pi % 7 != 0 {
                        continue;
                    }
                    lcases.push(Case { kinds: kinds.clone(), layout: 255, gates: 5, ws: if pi % 2 == 0 { 8 } else { 16 }, plan: (pi % 2) as u8, start, phys: phys.clone(), gaps: gaps.clone() });
                }
            }
        }
    }
    // all ten blocks: identity / reversed / rotated, at most two non-zero gaps
    let all10: Vec<usize> = (0..10).collect();
    for &start in &starts {
        for phys in [all10.clone(), all10.iter().rev().copied().collect::<Vec<_>>(), (0..10).map(|i| (i + 3) % 10).collect::<Vec<_>>()] {
            for a in 0..10 {
                for b in a..10 {
                    let mut gaps = vec![0usize; 10];
                    gaps[a] = start;
                    gaps[b] = if a == b { start } else { 3 };
                    lcases.push(Case { kinds: all10.clone(), layout: 255, gates: 3, ws: 8, plan: 0, start, phys: phys.clone(), gaps });
                }
            }
        }
    }
    let lstats: Stats = lcases
        .par_iter()
        .fold(Stats::new, |mut st, c| {
            let o = check_case(ctx, c);
            st.eval();
            st.outcome(o);
            st.dim("layout", "explicit");
            st.count("layout_intensive_cases", 1);
            st.nontrivial(format!("{:?}", c).as_bytes());
            st
        })
        .reduce(Stats::new, Stats::merge);
    let stats = stats.merge(lstats);
    // format variants: the size and version fields of the VOL / ELV / RAD blocks take the values
    // that the ICD's successive builds documented for them (VOL LRTUP 40/44/52 with versions 1.0,
    // 2.0, 3.0, ...; RAD LRTUP 20/28; ELV LRTUP 12), in every combination and in both pointer
    // orders. A decoder that switches layout on such fields reads them jointly; the bytes on the wire
    // keep the current block sizes, so every field must still equal the bytes at its offset.
    let mut sfmt = Stats::new();
    for vol_lrtup in [40u16, 44, 52, 0] {
        for (maj, min) in [(1u8, 0u8), (2, 0), (3, 0), (1, 1), (0, 0)] {
            for rad_lrtup in [20u16, 28, 0] {
                for elv_lrtup in [12u16, 0] {
                    for order in [[0usize, 1, 2, 3], [2, 1, 0, 3], [3, 2, 1, 0]] {
                        let (h, mut blocks) = simple_radial(2, 77, 19000, 12345, &[3], 5, Some(212));
                        blocks[0].bytes[4..6].copy_from_slice(&vol_lrtup.to_be_bytes());
                        blocks[0].bytes[6] = maj;
                        blocks[0].bytes[7] = min;
                        blocks[1].bytes[4..6].copy_from_slice(&elv_lrtup.to_be_bytes());
                        blocks[2].bytes[4..6].copy_from_slice(&rad_lrtup.to_be_bytes());
                        let (body, _) = t31_body(&h, &blocks, &Layout { ptrs: order.to_vec(), ..Layout::default() });
                        let wit = || json!({"op": "format_variant", "vol_lrtup": vol_lrtup, "version": [maj, min], "rad_lrtup": rad_lrtup, "elv_lrtup": elv_lrtup, "pointer_order": order});
                        sfmt.eval();
                        let b2 = body.clone();
                        match guarded(move || drd::decode_digital_radar_data(&mut std::io::Cursor::new(b2))) {
                            Caught::Ret(Ok(m)) => {
                                for (k, blk) in blocks.iter().enumerate() {
                                    for (name, got, exp) in block_mismatches(&m, k, &blk.bytes) {
                                        ctx.fail(&format!("format_variant:field:{name}"), || format!("VOL lrtup {vol_lrtup} v{maj}.{min}, RAD lrtup {rad_lrtup}, ELV lrtup {elv_lrtup}, pointer order {order:?}: decoded {got:#x}, bytes hold {exp:#x}"), wit);
                                    }
                                }
                                sfmt.outcome("ok");
                            }
                            Caught::Ret(Err(e)) => ctx.fail("format_variant:well_formed_rejected", || format!("VOL lrtup {vol_lrtup} v{maj}.{min}, RAD lrtup {rad_lrtup}: {e:?}"), wit),
                            Caught::Panic(p) => ctx.fail(&format!("decode:panic:{}", panic_class(&p)), || p.clone(), wit),
                        }
                    }
                }
            }
        }
    }
    sfmt.count("format_variant_cases", sfmt.evaluations);
    let stats = stats.merge(sfmt);
    // short-read environment for the type-31 decoder
    let mut ssr = Stats::new();
    {
        use crate::guard::{short_read_check, SplitReader};
        for (kinds, layout) in [(vec![0usize, 1, 2, 3], 0u8), (vec![3, 7, 0], 3), ((0..10).collect::<Vec<_>>(), 2)] {
            let c = Case { kinds: kinds.clone(), layout, gates: 9, ws: 16, plan: 0, start: 0, phys: vec![], gaps: vec![] };
            let (bytes, blocks, _) = build(&c);
            // digest = per-offset mismatch counts against the encoded bytes (NaN-safe, unlike PartialEq)
            let digest = |m: drd::Message| -> Vec<usize> {
                let mut d = vec![header_mismatches(&m.header, &bytes).len()];
                for k in 0..10 {
                    match kinds.iter().position(|x| *x == k) {
                        Some(i) => d.push(block_mismatches(&m, k, &blocks[i].bytes).len()),
                        None => d.push(if present(&m, k) { 99 } else { 0 }),
                    }
                }
                d
            };
            let n = short_read_check(ctx, "decode_digital_radar_data", &bytes, true, |r: &mut SplitReader| drd::decode_digital_radar_data(r).ok().map(&digest), |shape| json!({"kinds": kinds, "layout": layout, "gates": 9, "ws": 16, "plan": 0, "start": 0, "short_read_boundaries": shape.0, "max_chunk": shape.1}));
            ssr.evaluations += n;
            ssr.count("short_read_shapes", n);
            let n = crate::guard::two_actor_check(ctx, "decode_digital_radar_data", &bytes, 48, |r: &mut SplitReader| drd::decode_digital_radar_data(r).ok().map(&digest), |mode, k| json!({"op": "two_actor", "kinds": kinds, "layout": layout, "mode": mode, "read_call": k}));
            ssr.evaluations += n;
            ssr.count("two_actor_schedules", n);
        }
    }
    let stats = stats.merge(ssr);
    // distinguishability obligation: any two same-width header fields differ in at least one plan
    let h0 = t31_body(&plan_header(0), &[], &Layout::default()).0;
    let h1 = t31_body(&plan_header(1), &[], &Layout::default()).0;
    let offs: Vec<(usize, usize)> = vec![(4, 4), (12, 4), (24, 4), (8, 2), (10, 2), (18, 2), (16, 1), (17, 1), (20, 1), (21, 1), (22, 1), (23, 1), (28, 1), (29, 1)];
    for (i, a) in offs.iter().enumerate() {
        for b in offs.iter().skip(i + 1) {
            if a.1 == b.1 && rd(&h0, a.0, a.1) == rd(&h0, b.0, b.1) && rd(&h1, a.0, a.1) == rd(&h1, b.0, b.1) {
                machinery(&format!("C02 value plans do not distinguish header offsets {} and {}", a.0, b.0));
            }
        }
    }
    let cov = stats.coverage(
        "block orders = all ordered selections of <=3 (thorough <=4) of the 10 block kinds plus all 1024 subsets in canonical (and reversed) order; x pointer layouts {contiguous, gap 1, gap 7, physical order reversed vs pointer table[, rotated+gap 3]} x gates x word size {8,16} x value plans; start offset 0 or 5; plus a layout-intensive sweep: four representative block sets x every physical permutation x every per-block gap vector over {0, S, 3} x cursor start offset S in {0,1,5,28,100,...}, and the full ten-block message with up to two gaps. Oracle: per-offset field tables. non-trivial = >=2 blocks; distinct by hash of the case",
        true,
        json!({"orders": orders.len(), "layouts": layouts, "gates": gates, "plans": plans, "nominal_product": total, "not_covered": "all 10! orders of the full block set"}),
    );
    (
        "exploration",
        cov,
        vec!["type-31 layout tables per DESIGN Appendix A", "f32 fields compared by bit pattern", "overflow-checks on"],
    )
}

pub fn replay(ctx: &'static Ctx, case: &Value) {
    if matches!(case["op"].as_str(), Some("two_actor") | Some("format_variant")) {
        let _ = run(ctx);
        return;
    }
    let c = Case::from_json(case);
    let o = check_case(ctx, &c);
    println!("replay C02 {:?} -> {}", c, o);
}
