//! C05 — volume container: records tile the file, bzip2 round-trips, header exact.

use crate::core::*;
use crate::enc::*;
use nexrad_data::volume::{split_compressed_records, File, Header, Record};
use rayon::prelude::*;
use serde_json::{json, Value};

const SIZES: [usize; 8] = [0, 1, 2, 5, 6, 100, 2432, 70_000];

#[derive(Clone, Debug, PartialEq)]
pub struct Rec {
    pub bz: bool,
    pub size: usize,
    pub negative: bool,
    pub content: u8,
    pub level: u32,
}

#[derive(Clone, Debug)]
pub struct Case {
    pub recs: Vec<Rec>,
    /// 0..=4 fixed value plans; 16 + i = field values taken from entry i of the source dictionary
    pub header: u16,
}

impl Case {
    fn json(&self) -> Value {
        json!({"header": self.header, "recs": self.recs.iter().map(|r| json!({"bz": r.bz, "size": r.size, "negative": r.negative, "content": r.content, "level": r.level})).collect::<Vec<_>>()})
    }
    fn from_json(v: &Value) -> Case {
        Case {
            header: v["header"].as_u64().unwrap_or(0) as u16,
            recs: v["recs"]
                .as_array()
                .map(|a| {
                    a.iter()
                        .map(|r| Rec {
                            bz: r["bz"].as_bool().unwrap_or(false),
                            size: r["size"].as_u64().unwrap_or(0) as usize,
                            negative: r["negative"].as_bool().unwrap_or(false),
                            content: r["content"].as_u64().unwrap_or(0) as u8,
                            level: r["level"].as_u64().unwrap_or(9) as u32,
                        })
                        .collect()
                })
                .unwrap_or_default(),
        }
    }
}

/// content kinds: 0 zeros, 1 ramp, 2 text, 3 starts with "BZh9", 4 pseudo-random (incompressible),
/// 5 already a bzip2 stream of a ramp
fn payload(kind: u8, size: usize) -> Vec<u8> {
    let mut v: Vec<u8> = match kind {
        0 => vec![0; size],
        1 => (0..size).map(|i| i as u8).collect(),
        2 => b"NEXRAD Level II archive record. ".iter().cycle().take(size).copied().collect(),
        3 => b"BZh91AY&SY".iter().cycle().take(size).copied().collect(),
        4 => {
            let mut x: u64 = 0x9E3779B97F4A7C15 ^ size as u64;
            (0..size)
                .map(|_| {
                    x ^= x << 13;
                    x ^= x >> 7;
                    x ^= x << 17;
                    (x >> 24) as u8
                })
                .collect()
        }
        _ => {
            let inner: Vec<u8> = (0..size.max(1)).map(|i| (i * 7) as u8).collect();
            bz(&inner, 9)
        }
    };
    if kind == 3 && size >= 2 {
        v[0] = b'B';
        v[1] = b'Z';
    }
    v
}

fn header_plan(p: u16) -> VolHeader {
    if p >= 16 {
        // tape filename / extension / ICAO filled from a literal that occurs in the source under
        // test (left-aligned, continued cyclically, so a 9-byte constant lands exactly in the tape
        // field and a 4-byte one in the ICAO field)
        let d = source_dictionary();
        let lit = &d[(p as usize - 16) % d.len().max(1)];
        let at = |i: usize| lit[i % lit.len()];
        let mut tape = *b"AR2V0006.";
        for (i, b) in tape.iter_mut().enumerate() {
            if i < lit.len() || lit.len() < 4 {
                *b = at(i);
            }
        }
        let mut ext = *b"001";
        if lit.len() > 9 {
            for (i, b) in ext.iter_mut().enumerate() {
                if 9 + i < lit.len() {
                    *b = lit[9 + i];
                }
            }
        }
        let icao = [at(0), at(1), at(2), at(3)];
        return VolHeader { tape, ext, date: 19_000, time: 43_200_000, icao };
    }
    match p {
        0 => VolHeader::basic(),
        1 => VolHeader { tape: *b"AR2V0002.", ext: *b"999", date: 1, time: 0, icao: *b"PHWA" },
        2 => VolHeader { tape: *b"AR2V0007.", ext: *b"042", date: 65_535, time: 86_399_999, icao: *b"TJUA" },
        3 => VolHeader { tape: *b"abcdefghi", ext: *b"jkl", date: 0x0000_4A38, time: 0x0102_0304 % 86_400_000, icao: *b"mnop" },
        _ => VolHeader { tape: [0xFF, 0xFE, b'2', b'V', 0x80, 0, 0, 0, b'.'], ext: [0xC3, 0x28, 0x00], date: 19_000, time: 5, icao: [0xF0, 0x28, 0x8C, 0xBC] },
    }
}

fn build(c: &Case) -> (Vec<u8>, Vec<Vec<u8>>, Vec<Option<Vec<u8>>>) {
    let mut recs = Vec::new();
    let mut payloads = Vec::new();
    for r in &c.recs {
        let p = payload(r.content, r.size);
        if r.bz {
            recs.push(record_bz(&p, r.level, r.negative));
            payloads.push(Some(p));
        } else {
            recs.push(record_raw(&p, r.negative));
            payloads.push(None);
        }
    }
    (volume(&header_plan(c.header), &recs), recs, payloads)
}

fn check_records(ctx: &Ctx, label: &str, records: &[Record], recs: &[Vec<u8>], payloads: &[Option<Vec<u8>>], rest: &[u8], c: &Case, wit: &dyn Fn() -> Value) -> bool {
    let concat: Vec<u8> = records.iter().flat_map(|r| r.data().iter().copied()).collect();
    if concat != rest {
        ctx.fail(&format!("{label}:records_do_not_tile_file"), || format!("{:?}: concatenation {} bytes, remainder {} bytes", c, concat.len(), rest.len()), wit);
        return false;
    }
    if records.len() != recs.len() {
        ctx.fail(&format!("{label}:record_count"), || format!("{:?}: {} records, expected {}", c, records.len(), recs.len()), wit);
        return false;
    }
    for (i, r) in records.iter().enumerate() {
        if r.data() != recs[i].as_slice() {
            ctx.fail(&format!("{label}:record_is_not_prefix_plus_size_bytes"), || format!("{:?}: record {i}", c), wit);
            return false;
        }
        let d = r.data();
        let exp_compressed = d.len() >= 6 && &d[4..6] == b"BZ";
        match guarded(|| r.compressed()) {
            Caught::Ret(g) if g == exp_compressed => {}
            other => {
                ctx.fail(&format!("{label}:compressed_flag"), || format!("{:?}: record {i} compressed()={:?} expected {exp_compressed}", c, other.ret()), wit);
                return false;
            }
        }
        let dec = guarded(|| r.decompress().map(|x| x.data().to_vec()).map_err(|e| format!("{:?}", e)));
        match (&payloads[i], exp_compressed, dec) {
            (_, _, Caught::Panic(p)) => {
                ctx.fail(&format!("{label}:decompress_panic"), || p.clone(), wit);
                return false;
            }
            (Some(p), true, Caught::Ret(Ok(out))) => {
                if &out != p {
                    ctx.fail(&format!("{label}:bzip2_round_trip:content={}", c.recs[i].content), || format!("{:?}: record {i}: {} bytes out, {} in", c, out.len(), p.len()), wit);
                    return false;
                }
            }
            (Some(_), true, Caught::Ret(Err(e))) => {
                ctx.fail(&format!("{label}:decompress_failed_on_valid_record"), || format!("{:?}: record {i}: {e}", c), wit);
                return false;
            }
            (_, false, Caught::Ret(Ok(_))) => {
                ctx.fail(&format!("{label}:decompress_of_uncompressed_record_succeeded"), || format!("{:?}: record {i}", c), wit);
                return false;
            }
            _ => {}
        }
        if exp_compressed {
            match guarded(|| r.messages().is_err()) {
                Caught::Ret(true) => {}
                Caught::Ret(false) => {
                    ctx.fail(&format!("{label}:messages_on_compressed_record_succeeded"), || format!("{:?}: record {i}", c), wit);
                    return false;
                }
                Caught::Panic(p) => {
                    ctx.fail(&format!("{label}:messages_panic"), || p.clone(), wit);
                    return false;
                }
            }
        }
    }
    true
}

pub fn check_case(ctx: &Ctx, c: &Case) -> &'static str {
    let (bytes, recs, payloads) = build(c);
    let wit = || c.json();
    // odd-sized files are held in a vector with spare capacity (capacity is not part of the value)
    let mut held = Vec::with_capacity(bytes.len() + if bytes.len() % 2 == 1 { 4096 } else { 0 });
    held.extend_from_slice(&bytes);
    let file = File::new(held);
    if file.data() != &bytes {
        ctx.fail("file:data_changed", || format!("{:?}", c), wit);
    }
    let records = match guarded(|| file.records()) {
        Caught::Ret(r) => r,
        Caught::Panic(p) => {
            ctx.fail(&format!("file:records_panic:{}", panic_class(&p)), || format!("{:?}: {p}", c), wit);
            return "panic";
        }
    };
    if !check_records(ctx, "file", &records, &recs, &payloads, &bytes[24..], c, &wit) {
        return "mismatch";
    }
    // the free function on the remainder must agree
    match guarded(|| split_compressed_records(&bytes[24..])) {
        Caught::Ret(r) => {
            if !check_records(ctx, "split", &r, &recs, &payloads, &bytes[24..], c, &wit) {
                return "mismatch";
            }
        }
        Caught::Panic(p) => {
            ctx.fail("split:panic", || p.clone(), wit);
            return "panic";
        }
    }
    // header
    let hp = header_plan(c.header);
    match guarded(|| file.header().map_err(|e| format!("{:?}", e))) {
        Caught::Ret(Ok(h)) => check_header(ctx, &h, &hp, c.header, &wit),
        other => ctx.fail("header:decode_failed", || format!("{:?}", other.ret().map(|r| r.is_ok())), wit),
    }
    "ok"
}

fn check_header(ctx: &Ctx, h: &Header, hp: &VolHeader, plan: u16, wit: &dyn Fn() -> Value) {
    let s = |b: &[u8]| String::from_utf8(b.to_vec()).ok();
    let r = guarded(|| (h.tape_filename(), h.extension_number(), h.icao_of_radar(), h.date_time().map(|d| d.timestamp_millis())));
    match r {
        Caught::Panic(p) => ctx.fail("header:accessor_panic", || p.clone(), wit),
        Caught::Ret((tape, ext, icao, dt)) => {
            if plan < 4 || (plan >= 16 && std::str::from_utf8(&hp.encode()[..16]).is_ok() && std::str::from_utf8(&hp.icao).is_ok()) {
                if tape != s(&hp.tape) {
                    ctx.fail("header:tape_filename", || format!("{:?} vs {:?}", tape, s(&hp.tape)), wit);
                }
                if ext != s(&hp.ext) {
                    ctx.fail("header:extension_number", || format!("{:?} vs {:?}", ext, s(&hp.ext)), wit);
                }
                if icao != s(&hp.icao) {
                    ctx.fail("header:icao_of_radar", || format!("{:?} vs {:?}", icao, s(&hp.icao)), wit);
                }
            }
            if (1..=65535).contains(&hp.date) && hp.time < 86_400_000 {
                let e = ref_epoch_ms(hp.date as i64, hp.time as i64);
                if dt != Some(e) {
                    ctx.fail("header:date_time", || format!("{:?} vs {e}", dt), wit);
                }
            }
        }
    }
}

fn rec_options(full: bool) -> Vec<Rec> {
    let mut out = Vec::new();
    for (si, &size) in SIZES.iter().enumerate() {
        for negative in [false, true] {
            for content in 0..4u8 {
                if !full && (si + content as usize + negative as usize) % 3 != 0 {
                    continue;
                }
                out.push(Rec { bz: false, size, negative, content, level: 0 });
            }
            for content in 0..6u8 {
                for level in [1u32, 9] {
                    if !full && (si + content as usize + level as usize + negative as usize) % 4 != 0 {
                        continue;
                    }
                    out.push(Rec { bz: true, size, negative, content, level });
                }
            }
        }
    }
    out
}

pub fn run(ctx: &'static Ctx) -> (&'static str, Value, Vec<&'static str>) {
    let thorough = ctx.tier.thorough();
    let full = rec_options(true);
    let reduced = rec_options(false);
    let mut cases: Vec<Case> = Vec::new();
    for h in 0..5u16 {
        cases.push(Case { recs: vec![], header: h });
    }
    for (i, r) in full.iter().enumerate() {
        cases.push(Case { recs: vec![r.clone()], header: (i % 5) as u16 });
    }
    // all ordered pairs of the reduced option set (thorough: of the full set with small sizes)
    let pair_set: Vec<Rec> = if thorough { full.iter().filter(|r| r.size <= 2432).cloned().collect() } else { reduced.clone() };
    for (i, a) in pair_set.iter().enumerate() {
        for (j, b) in pair_set.iter().enumerate() {
            if !thorough && (i * 31 + j * 17) % 3 != 0 {
                continue;
            }
            cases.push(Case { recs: vec![a.clone(), b.clone()], header: ((i + j) % 5) as u16 });
        }
    }
    // 3 and 4 records: every option appears in every position (cyclic covering)
    for n in [3usize, 4] {
        let set = if thorough { &full } else { &reduced };
        for i in 0..set.len() {
            for stride in [1usize, 7, 13] {
                let recs: Vec<Rec> = (0..n).map(|k| set[(i + k * stride) % set.len()].clone()).collect();
                cases.push(Case { recs, header: (i % 5) as u16 });
            }
        }
    }
    // header fields taken from every literal in the source under test, over three record lists
    for i in 0..source_dictionary().len() {
        let h = 16 + i as u16;
        cases.push(Case { recs: vec![], header: h });
        cases.push(Case { recs: vec![Rec { bz: true, size: 100, negative: false, content: 1, level: 9 }, Rec { bz: false, size: 6, negative: true, content: 2, level: 0 }, Rec { bz: true, size: 1, negative: false, content: 0, level: 1 }], header: h });
        cases.push(Case { recs: vec![Rec { bz: false, size: 0, negative: false, content: 0, level: 0 }, Rec { bz: true, size: 2432, negative: true, content: 3, level: 9 }], header: h });
    }
    // large payloads: 5 MiB (thorough: 20 MiB) of text, above any plausible internal buffer size
    for size in if thorough { vec![5usize << 20, 20 << 20] } else { vec![5usize << 20] } {
        cases.push(Case { recs: vec![Rec { bz: true, size: 100, negative: false, content: 1, level: 9 }, Rec { bz: true, size, negative: true, content: 2, level: 1 }, Rec { bz: true, size: 6, negative: false, content: 0, level: 9 }], header: 1 });
    }
    // multi-block payload (900 KiB incompressible => more than one bzip2 block at level 1)
    for level in [1u32, 9] {
        cases.push(Case { recs: vec![Rec { bz: true, size: 900 * 1024, negative: level == 1, content: 4, level }, Rec { bz: true, size: 5, negative: false, content: 1, level }], header: 0 });
    }
    let s1: Stats = cases
        .par_iter()
        .enumerate()
        .fold(Stats::new, |mut st, (i, c)| {
            let o = check_case(ctx, c);
            st.eval();
            st.outcome(o);
            st.dim("record_count", c.recs.len());
            st.dim("header_plan", c.header);
            for r in &c.recs {
                st.dim("size", r.size);
                st.dim("sign", if r.negative { "-" } else { "+" });
                st.dim("kind", if r.bz { format!("bz:content{}:level{}", r.content, r.level) } else { format!("raw:content{}", r.content) });
            }
            if c.recs.len() >= 2 {
                st.nontrivial(format!("{:?}", c).as_bytes());
            }
            if i % 2003 == 11 {
                st.sample(4, || json!({"case": c.json(), "outcome": o}));
            }
            st
        })
        .reduce(Stats::new, Stats::merge);

    // chunks wrap the same containers
    let mut s2 = Stats::new();
    // (the real-time Chunk type lives in the aws module: absent from the `dec` build configuration)
    #[cfg(feature = "full")]
    for (i, r) in reduced.iter().filter(|r| r.bz).enumerate() {
        use nexrad_data::aws::realtime::Chunk;
        let p = payload(r.content, r.size);
        let rec = record_bz(&p, r.level, r.negative);
        let start = volume(&header_plan((i % 4) as u16), &[rec.clone()]);
        s2.eval();
        let wit = || json!({"op": "chunk", "rec": format!("{:?}", r)});
        // intermediate chunk = one compressed record
        match guarded(|| Chunk::new(rec.clone()).map_err(|e| format!("{:?}", e))) {
            Caught::Ret(Ok(Chunk::IntermediateOrEnd(rr))) => {
                if rr.data() != rec.as_slice() || !rr.compressed() || rr.decompress().map(|x| x.data().to_vec()).ok() != Some(p.clone()) {
                    ctx.fail("chunk:intermediate_record_differs", || format!("{:?}", r), wit);
                }
            }
            other => ctx.fail("chunk:intermediate_not_recognised", || format!("{:?}: {:?}", r, other.ret().map(|x| x.is_ok())), wit),
        }
        if &start[0..3] == b"AR2" {
            match guarded(|| Chunk::new(start.clone()).map_err(|e| format!("{:?}", e))) {
                Caught::Ret(Ok(ch)) => {
                    if ch.data() != start.as_slice() {
                        ctx.fail("chunk:start_data_differs", || format!("{:?}", r), wit);
                    }
                    match &ch {
                        Chunk::Start(f) => {
                            let rs = f.records();
                            if rs.len() != 1 || rs[0].data() != rec.as_slice() {
                                ctx.fail("chunk:start_records_differ", || format!("{:?}", r), wit);
                            }
                        }
                        _ => ctx.fail("chunk:start_not_recognised", || format!("{:?}", r), wit),
                    }
                }
                other => ctx.fail("chunk:start_rejected", || format!("{:?}: {:?}", r, other.ret().map(|x| x.is_ok())), wit),
            }
        }
        s2.nontrivial(format!("chunk{:?}", r).as_bytes());
        s2.outcome("chunk_checked");
    }
    // record level: compressed() <=> 'BZ' follows the 4-byte prefix, for every short byte string
    let alpha = [0x00u8, b'B', b'Z', b'h'];
    let mut s3 = Stats::new();
    for len in 0..=8usize {
        for w in words(4, len) {
            let b: Vec<u8> = w.iter().map(|i| alpha[*i as usize]).collect();
            let exp = b.len() >= 6 && &b[4..6] == b"BZ";
            s3.eval();
            for (kind, r) in [("owned", Record::new(b.clone())), ("borrowed", Record::from_slice(&b))] {
                match guarded(|| (r.compressed(), r.data().to_vec(), r.decompress().is_ok())) {
                    Caught::Ret((c, d, dec_ok)) => {
                        if c != exp {
                            ctx.fail("record:compressed_flag_on_raw_bytes", || format!("{kind} record {:?}: compressed()={c} expected {exp}", b), || json!({"op": "raw_record", "bytes_hex": hex(&b)}));
                        }
                        if d != b {
                            ctx.fail("record:data_changed", || format!("{:?}", b), || json!({"op": "raw_record", "bytes_hex": hex(&b)}));
                        }
                        if !exp && dec_ok {
                            ctx.fail("record:decompress_of_uncompressed_record_succeeded", || format!("{:?}", b), || json!({"op": "raw_record", "bytes_hex": hex(&b)}));
                        }
                    }
                    Caught::Panic(p) => ctx.fail("record:panic_on_raw_bytes", || p.clone(), || json!({"op": "raw_record", "bytes_hex": hex(&b)})),
                }
            }
            if len >= 6 {
                s3.nontrivial(&b);
            }
        }
    }
    s3.count("raw_record_strings", s3.evaluations);
    // history dimension: sequences of <= 3 record operations on a fresh thread, over an alphabet
    // that includes large records (bzip2 stream > 64 KiB), failing decompressions that have
    // already produced output (truncated / corrupted multi-block streams) and the plain error cases
    {
        let big_a = payload(4, 300 * 1024);
        let big_b = payload(4, 200 * 1024 + 77);
        let small = payload(1, 1000);
        let rec_big_a = record_bz(&big_a, 1, false);
        let rec_big_b = record_bz(&big_b, 1, true);
        let rec_small = record_bz(&small, 9, false);
        let mut rec_trunc = rec_big_a.clone();
        rec_trunc.truncate(rec_big_a.len() * 2 / 3);
        let mut rec_corrupt = rec_big_b.clone();
        let mid = rec_corrupt.len() * 3 / 4;
        for b in rec_corrupt[mid..mid + 64].iter_mut() {
            *b ^= 0x5A;
        }
        let rec_raw = record_raw(&payload(2, 500), false);
        // (record bytes, expected payload if decompression must succeed)
        let ops: Vec<(Vec<u8>, Option<Vec<u8>>, &str)> = vec![
            (rec_big_a, Some(big_a), "large_ok_a"),
            (rec_big_b, Some(big_b), "large_ok_b"),
            (rec_small, Some(small), "small_ok"),
            (rec_trunc, None, "large_truncated"),
            (rec_corrupt, None, "large_corrupted"),
            (rec_raw, None, "uncompressed"),
        ];
        let hs = std::sync::Mutex::new(Stats::new());
        for_each_history(ops.len(), 3, |w| {
            let mut st = Stats::new();
            for (step, i) in w.iter().enumerate() {
                let (bytes, exp, name) = &ops[*i];
                let r = Record::new(bytes.clone());
                st.eval();
                match (guarded(|| r.decompress().map(|x| x.data().to_vec()).ok()), exp) {
                    (Caught::Ret(Some(out)), Some(p)) => {
                        if &out != p {
                            ctx.fail(
                                "history:decompress_depends_on_previous_operations",
                                || format!("sequence {:?}: step {step} ({name}) returned {} bytes for a payload of {} bytes", w.iter().map(|k| ops[*k].2).collect::<Vec<_>>(), out.len(), p.len()),
                                || json!({"op": "history", "sequence": w}),
                            );
                        }
                    }
                    (Caught::Ret(None), Some(_)) => ctx.fail("history:decompress_fails_after_previous_operations", || format!("sequence {:?} step {step} ({name})", w.iter().map(|k| ops[*k].2).collect::<Vec<_>>()), || json!({"op": "history", "sequence": w})),
                    (Caught::Ret(Some(_)), None) if *name == "uncompressed" => ctx.fail("history:uncompressed_record_decompressed", || format!("{:?}", w), || json!({"op": "history", "sequence": w})),
                    (Caught::Panic(p), _) => ctx.fail("history:decompress_panic", || p.clone(), || json!({"op": "history", "sequence": w})),
                    _ => {}
                }
            }
            st.count("history_sequences", 1);
            st.nontrivial(format!("h{:?}", w).as_bytes());
            let mut g = hs.lock().unwrap_or_else(|e| e.into_inner());
            let old = std::mem::take(&mut *g);
            *g = old.merge(st);
        });
        s3 = s3.merge(hs.into_inner().unwrap_or_else(|e| e.into_inner()));
        // the same operations under the generic dimensions of history_check: one-CPU thread, async
        // executor contexts, cross-API disturbances
        let sg = history_check(
            ctx,
            "record_decompress",
            ops.len(),
            1,
            |i| guarded(|| Record::new(ops[i].0.clone()).decompress().map(|x| (x.data().len(), fnv64(x.data()))).ok()),
            |i| ops[i].2.to_string(),
        );
        s3 = s3.merge(sg);
        // short-read environment for the volume header
        use crate::guard::{short_read_check, SplitReader};
        for hp in 0..4u16 {
            let bytes = header_plan(hp).encode();
            let n = short_read_check(ctx, "volume::Header::deserialize", &bytes, true, |r: &mut SplitReader| Header::deserialize(r).ok().map(|h| (h.tape_filename(), h.extension_number(), h.icao_of_radar(), h.date_time())), |shape| json!({"op": "short_read", "header_plan": hp, "boundaries": shape.0, "max_chunk": shape.1}));
            s3.evaluations += n;
            s3.count("short_read_shapes", n);
            let n = crate::guard::two_actor_check(ctx, "volume::Header::deserialize", &bytes, 32, |r: &mut SplitReader| Header::deserialize(r).ok().map(|h| (h.tape_filename(), h.extension_number(), h.icao_of_radar(), h.date_time())), |mode, k| json!({"op": "short_read", "header_plan": hp, "mode": mode, "read_call": k}));
            s3.evaluations += n;
            s3.count("two_actor_schedules", n);
        }
    }
    let stats = s1.merge(s2).merge(s3);
    let cov = stats.coverage(
        "files built by the reference container writer: 0..=4 records; record options = {raw bytes, bzip2 of payload} x size {0,1,2,5,6,100,2432,70000} x sign {+,-} x content {zeros, ramp, text, 'BZh9..' look-alike, incompressible, already-bzip2} x level {1,9}: all single records, all (thorough) / a third of reduced (quick) ordered pairs, cyclic coverings for 3 and 4 records, 900 KiB multi-block payloads; 5 header plans (incl. non-UTF-8); chunk wrappers; every byte string of length 0..=8 over {00,B,Z,h} as a bare record (compressed() <=> bytes 4..6 == 'BZ'); history: every sequence of <= 3 decompressions over {large ok a/b, small ok, large truncated, large corrupted, uncompressed} on a fresh thread; short-read reader shapes for the volume header. non-trivial = >= 2 records; distinct by content hash",
        true,
        json!({"record_options": full.len(), "cases": cases.len()}),
    );
    (
        "exploration",
        cov,
        vec!["bzip2 encoder trusted", "well-formed files only (size prefixes consistent with the bytes that follow)"],
    )
}

pub fn replay(ctx: &'static Ctx, case: &Value) {
    if case["op"].as_str() == Some("raw_record") {
        let b = unhex(case["bytes_hex"].as_str().unwrap_or(""));
        let r = Record::new(b.clone());
        let exp = b.len() >= 6 && &b[4..6] == b"BZ";
        let got = guarded(|| r.compressed());
        println!("replay raw record {:?}: compressed()={:?} expected {exp}", b, got);
        if got != Caught::Ret(exp) {
            ctx.fail("record:compressed_flag_on_raw_bytes", || format!("{:?}", b), || case.clone());
        }
        return;
    }
    if matches!(case["op"].as_str(), Some("history") | Some("short_read")) {
        let _ = run(ctx);
        return;
    }
    if case["op"].as_str() == Some("chunk") {
        let _ = run(ctx);
        return;
    }
    let c = Case::from_json(case);
    let o = check_case(ctx, &c);
    println!("replay C05 {:?} -> {o}", c);
}
