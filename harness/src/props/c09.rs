//! C09 — sweep grouping and merging conserve radials.
//! E2: stateright explicit-state search whose invariant calls the real `Sweep::from_radials`
//! in every state (state = elevation-number word); plus full product enumeration for `merge`.

use crate::core::*;
use nexrad_model::data::{Radial, RadialStatus, Sweep};
use rayon::prelude::*;
use serde_json::{json, Value};
use stateright::{Checker, Model, Property};
use std::sync::atomic::{AtomicU64, Ordering};
use std::sync::{Arc, Mutex};

const STATUSES: [RadialStatus; 6] = [
    RadialStatus::IntermediateRadialData,
    RadialStatus::ElevationStart,
    RadialStatus::ElevationEnd,
    RadialStatus::VolumeScanStart,
    RadialStatus::VolumeScanEnd,
    RadialStatus::ElevationStartVCPFinal,
];

pub fn radial(ts: i64, az: u16, elev: u8) -> Radial {
    radial_s(ts, az, elev, 0)
}

pub fn radial_s(ts: i64, az: u16, elev: u8, status: usize) -> Radial {
    Radial::new(
        ts,
        az,
        az as f32 * 0.5,
        0.5,
        STATUSES[status % 6],
        elev,
        elev as f32 * 0.5,
        None,
        None,
        None,
        None,
        None,
        None,
        None,
    )
}

thread_local! {
    /// status pattern applied by radials_for: status of radial i = pattern[i % len]
    static STATUS_PATTERN: std::cell::RefCell<Vec<usize>> = const { std::cell::RefCell::new(Vec::new()) };
}

fn radials_for(word: &[u8]) -> Vec<Radial> {
    STATUS_PATTERN.with(|p| {
        let p = p.borrow();
        let mut v = Vec::with_capacity(word.len() + if p.len() % 2 == 1 { 17 } else { 0 });
        v.extend(word.iter().enumerate().map(|(i, e)| radial_s(1000 + i as i64, (i % 720) as u16 + 1, *e, if p.is_empty() { 0 } else { p[i % p.len()] })));
        v
    })
}

/// check a word under every status pattern of a small family (status is independent of elevation)
fn check_word_all_statuses(ctx: &Ctx, word: &[u8]) -> &'static str {
    let patterns: Vec<Vec<usize>> = vec![vec![], vec![1], vec![0, 1], vec![2, 1, 0], vec![3, 0, 0, 4], vec![5, 0], vec![0, 0, 1, 2]];
    let mut out = "ok";
    for p in patterns {
        STATUS_PATTERN.with(|sp| *sp.borrow_mut() = p);
        let o = check_word(ctx, word, false);
        if o != "ok" {
            out = o;
        }
    }
    STATUS_PATTERN.with(|sp| sp.borrow_mut().clear());
    // indistinguishable radials (the same radial delivered k times): the grouping must keep the
    // count of every run
    let same: Vec<Radial> = word.iter().map(|e| radial(7, 1, *e)).collect();
    match guarded(move || Sweep::from_radials(same)) {
        Caught::Ret(sweeps) => {
            let got: Vec<(u8, usize)> = sweeps.iter().map(|s| (s.elevation_number(), s.radials().len())).collect();
            let exp: Vec<(u8, usize)> = ref_groups(word).iter().map(|g| (g.0, g.1.len())).collect();
            if got != exp {
                ctx.fail("from_radials:identical_radials_not_conserved", || format!("word {:?} of indistinguishable radials: run lengths {:?}, expected {:?}", word, got, exp), || json!({"op": "from_radials", "word": word}));
                out = "mismatch";
            }
        }
        Caught::Panic(p) => ctx.fail(&format!("from_radials:panic:{}", panic_class(&p)), || p.clone(), || json!({"op": "from_radials", "word": word})),
    }
    out
}

/// Reference model: maximal runs of equal elevation number, as (label, [timestamps]).
fn ref_groups(word: &[u8]) -> Vec<(u8, Vec<i64>)> {
    let mut out: Vec<(u8, Vec<i64>)> = Vec::new();
    for (i, e) in word.iter().enumerate() {
        match out.last_mut() {
            Some((l, v)) if *l == *e => v.push(1000 + i as i64),
            _ => out.push((*e, vec![1000 + i as i64])),
        }
    }
    out
}

fn observe(sweeps: &[Sweep]) -> Vec<(u8, Vec<i64>, Vec<u8>)> {
    sweeps
        .iter()
        .map(|s| {
            (
                s.elevation_number(),
                s.radials().iter().map(|r| r.collection_timestamp()).collect(),
                s.radials().iter().map(|r| r.elevation_number()).collect(),
            )
        })
        .collect()
}

/// Checks one word; returns a short outcome label.
pub fn check_word(ctx: &Ctx, word: &[u8], differential: bool) -> &'static str {
    let wit = || json!({"op": "from_radials", "word": word});
    let input = radials_for(word);
    let inp2 = input.clone();
    let real = match guarded(move || Sweep::from_radials(inp2)) {
        Caught::Ret(v) => v,
        Caught::Panic(p) => {
            ctx.fail(&format!("from_radials:panic:{}", panic_class(&p)), || p.clone(), wit);
            return "panic";
        }
    };
    let obs = observe(&real);
    let exp = ref_groups(word);
    let concat: Vec<i64> = obs.iter().flat_map(|s| s.1.iter().copied()).collect();
    let all: Vec<i64> = (0..word.len()).map(|i| 1000 + i as i64).collect();
    let mut outcome = "ok";
    if concat != all {
        // classify
        let without_last: Vec<i64> = exp[..exp.len().saturating_sub(1)]
            .iter()
            .flat_map(|g| g.1.iter().copied())
            .collect();
        let sig = if !exp.is_empty() && concat == without_last {
            "from_radials:final_run_missing"
        } else if concat.len() < all.len() {
            "from_radials:radials_lost"
        } else if concat.len() > all.len() {
            "from_radials:radials_duplicated"
        } else {
            "from_radials:radials_reordered_or_altered"
        };
        ctx.fail(
            sig,
            || format!("word {:?}: concatenated sweeps {:?} != input {:?}", word, concat, all),
            wit,
        );
        outcome = "concat_mismatch";
    } else {
        // values unaltered
        let flat: Vec<&Radial> = real.iter().flat_map(|s| s.radials().iter()).collect();
        if flat.len() != input.len() || flat.iter().zip(input.iter()).any(|(a, b)| *a != b) {
            ctx.fail("from_radials:radial_altered", || format!("word {:?}", word), wit);
            outcome = "altered";
        }
        let shape: Vec<(u8, Vec<i64>)> = obs.iter().map(|s| (s.0, s.1.clone())).collect();
        if shape != exp {
            let sig = if obs.iter().any(|s| s.1.is_empty()) {
                "from_radials:empty_sweep"
            } else if obs.iter().any(|s| s.2.iter().any(|e| *e != s.0)) {
                "from_radials:label_not_common_elevation"
            } else if obs.windows(2).any(|w| w[0].0 == w[1].0) {
                "from_radials:adjacent_sweeps_same_elevation"
            } else {
                "from_radials:grouping_mismatch"
            };
            ctx.fail(sig, || format!("word {:?}: got {:?} expected {:?}", word, shape, exp), wit);
            outcome = "grouping_mismatch";
        }
    }
    if word.is_empty() && !real.is_empty() {
        ctx.fail("from_radials:empty_input_gives_sweeps", || "[]".into(), wit);
    }
    if !word.is_empty() && real.is_empty() {
        ctx.fail("from_radials:nonempty_input_gives_no_sweeps", || format!("word {:?}", word), wit);
    }
    if differential && outcome == "ok" {
        // from non-initial states: grouping a‖b must equal grouping a followed by grouping b
        // whenever the boundary is a forced break.
        for k in 1..word.len() {
            if word[k - 1] != word[k] {
                let a = radials_for(word)[..k].to_vec();
                let b = radials_for(word)[k..].to_vec();
                let r = guarded(move || {
                    let mut x = Sweep::from_radials(a);
                    x.extend(Sweep::from_radials(b));
                    x
                });
                match r {
                    Caught::Ret(x) => {
                        if observe(&x) != obs {
                            ctx.fail(
                                "from_radials:split_differential",
                                || format!("word {:?} split at {}", word, k),
                                || json!({"op": "from_radials_split", "word": word, "k": k}),
                            );
                            outcome = "split_mismatch";
                        }
                    }
                    Caught::Panic(p) => {
                        ctx.fail(&format!("from_radials:panic:{}", panic_class(&p)), || p.clone(), wit);
                    }
                }
            }
        }
    }
    outcome
}

#[derive(Clone)]
struct GroupModel {
    alphabet: Vec<u8>,
    depth: usize,
    ctx: &'static Ctx,
    transitions: Arc<AtomicU64>,
    checked: Arc<AtomicU64>,
    outcomes: Arc<Mutex<Stats>>,
}

impl Model for GroupModel {
    type State = Vec<u8>;
    type Action = u8;
    fn init_states(&self) -> Vec<Self::State> {
        vec![Vec::new()]
    }
    fn actions(&self, state: &Self::State, actions: &mut Vec<Self::Action>) {
        if state.len() < self.depth {
            actions.extend(self.alphabet.iter().copied());
        }
    }
    fn next_state(&self, last: &Self::State, action: Self::Action) -> Option<Self::State> {
        self.transitions.fetch_add(1, Ordering::Relaxed);
        let mut s = last.clone();
        s.push(action);
        Some(s)
    }
    fn properties(&self) -> Vec<Property<Self>> {
        vec![Property::always("sweeps agree with reference grouping", |m: &GroupModel, s: &Vec<u8>| {
            let mut o = check_word(m.ctx, s, true);
            if s.len() <= 6 && o == "ok" {
                // radial status (and hence any other radial field) varies independently of elevation
                o = check_word_all_statuses(m.ctx, s);
            }
            m.checked.fetch_add(1, Ordering::Relaxed);
            let mut st = m.outcomes.lock().unwrap_or_else(|e| e.into_inner());
            st.eval();
            st.outcome(o);
            let runs = ref_groups(s).len();
            st.dim("runs", runs);
            if runs >= 2 {
                st.nontrivial(s);
            }
            if s.len() >= 3 && st.samples.len() < 4 && runs >= 2 {
                let w = s.clone();
                st.sample(4, || json!({"word": w, "outcome": o}));
            }
            // failures are collected in ctx (classified against known_findings.json);
            // returning true keeps the search going behind a finding.
            true
        })]
    }
}

#[derive(Clone, Debug)]
struct MergeCase {
    a: Vec<u16>,
    b: Vec<u16>,
    ea: u8,
    eb: u8,
    /// spare capacity of the two radial vectors: (0,0) exact, else extra elements reserved
    /// (allocation capacity is not part of a sweep's value and must not influence the result)
    spare: (usize, usize),
    /// true: every radial carries the same collection time, so radials with equal azimuth number
    /// are indistinguishable objects (the same radial delivered twice); the union still has
    /// len(first) + len(second) members
    identical: bool,
    /// how the two sweeps reach `merge`: 0 = straight from `Sweep::new`, 1 = through a serde
    /// round trip (serialize, deserialize), 2 = cloned. Equal values must merge equally.
    ctor: u8,
}

fn via(ctor: u8, s: Sweep) -> Sweep {
    match ctor {
        1 => match serde_json::to_string(&s).ok().and_then(|t| serde_json::from_str::<Sweep>(&t).ok()) {
            Some(d) => d,
            None => s,
        },
        2 => s.clone(),
        _ => s,
    }
}

fn check_merge(ctx: &Ctx, c: &MergeCase) -> &'static str {
    let wit = || json!({"op": "merge", "a": c.a, "b": c.b, "ea": c.ea, "eb": c.eb, "spare": [c.spare.0, c.spare.1], "identical": c.identical, "ctor": c.ctor});
    let mut ra: Vec<Radial> = Vec::with_capacity(c.a.len() + c.spare.0);
    ra.extend(c.a.iter().enumerate().map(|(i, az)| radial(if c.identical { 7 } else { 100 + i as i64 }, *az, c.ea)));
    let mut rb: Vec<Radial> = Vec::with_capacity(c.b.len() + c.spare.1);
    rb.extend(c.b.iter().enumerate().map(|(i, az)| radial(if c.identical { 7 } else { 200 + i as i64 }, *az, c.eb)));
    let mut all: Vec<(u16, i64)> = ra
        .iter()
        .chain(rb.iter())
        .map(|r| (r.azimuth_number(), r.collection_timestamp()))
        .collect();
    all.sort_by_key(|x| x.0); // stable
    let (sa, sb) = (via(c.ctor, Sweep::new(c.ea, ra)), via(c.ctor, Sweep::new(c.eb, rb)));
    match guarded(move || sa.merge(sb)) {
        Caught::Panic(p) => {
            ctx.fail(&format!("merge:panic:{}", panic_class(&p)), || p.clone(), wit);
            "panic"
        }
        Caught::Ret(Err(_)) => {
            if c.ea == c.eb {
                ctx.fail("merge:error_on_equal_elevations", || format!("{:?}", c), wit);
            }
            "err"
        }
        Caught::Ret(Ok(s)) => {
            if c.ea != c.eb {
                ctx.fail("merge:different_elevations_accepted", || format!("{:?}", c), wit);
                return "ok_but_should_err";
            }
            let got: Vec<(u16, i64)> = s
                .radials()
                .iter()
                .map(|r| (r.azimuth_number(), r.collection_timestamp()))
                .collect();
            if s.elevation_number() != c.ea {
                ctx.fail("merge:label_changed", || format!("{:?}", c), wit);
            }
            if got != all {
                let mut g2 = got.clone();
                let mut a2 = all.clone();
                g2.sort();
                a2.sort();
                let sig = if got.len() != all.len() {
                    "merge:radial_count_not_conserved"
                } else if g2 != a2 {
                    "merge:not_union"
                } else if got.windows(2).any(|w| w[0].0 > w[1].0) {
                    "merge:not_sorted_by_azimuth"
                } else {
                    "merge:ties_not_first_then_second"
                };
                ctx.fail(sig, || format!("{:?}: got {:?} expected {:?}", c, got, all), wit);
                return "mismatch";
            }
            "ok"
        }
    }
}

fn words_upto(alpha: &[u16], max: usize) -> Vec<Vec<u16>> {
    let mut out = vec![vec![]];
    let mut frontier = vec![vec![]];
    for _ in 0..max {
        let mut next = Vec::new();
        for w in &frontier {
            for a in alpha {
                let mut x: Vec<u16> = w.clone();
                x.push(*a);
                next.push(x);
            }
        }
        out.extend(next.iter().cloned());
        frontier = next;
    }
    out
}

pub fn run(ctx: &'static Ctx) -> (&'static str, Value, Vec<&'static str>) {
    let t = ctx.tier.thorough();
    let configs: Vec<(Vec<u8>, usize)> = if t {
        vec![(vec![1, 2, 3], 12), (vec![0, 1, 255], 10), (vec![1, 2, 3, 4, 5], 8)]
    } else {
        vec![(vec![1, 2, 3], 9), (vec![0, 1, 255], 7)]
    };
    let mut states = 0u64;
    let mut transitions = 0u64;
    let mut checked = 0u64;
    let mut stats = Stats::new();
    let mut model_reports = Vec::new();
    for (alphabet, depth) in configs {
        let tr = Arc::new(AtomicU64::new(0));
        let ch = Arc::new(AtomicU64::new(0));
        let oc = Arc::new(Mutex::new(Stats::new()));
        let mk = || GroupModel {
            alphabet: alphabet.clone(),
            depth,
            ctx,
            transitions: tr.clone(),
            checked: ch.clone(),
            outcomes: oc.clone(),
        };
        let bfs = mk().checker().threads(16).spawn_bfs().join();
        let (u1, d1) = (bfs.unique_state_count() as u64, bfs.max_depth());
        let t1 = tr.swap(0, Ordering::Relaxed);
        let c1 = ch.swap(0, Ordering::Relaxed);
        let st1 = std::mem::take(&mut *oc.lock().unwrap());
        // second traversal (DFS) must agree on the unique-state count
        let dfs = mk().checker().threads(16).spawn_dfs().join();
        let u2 = dfs.unique_state_count() as u64;
        let _ = std::mem::take(&mut *oc.lock().unwrap());
        tr.store(0, Ordering::Relaxed);
        ch.store(0, Ordering::Relaxed);
        let k = alphabet.len() as u64;
        let expected: u64 = (0..=depth as u32).map(|l| k.pow(l)).sum();
        if u1 != u2 || u1 != expected {
            machinery(&format!(
                "C09 state count mismatch: bfs={u1} dfs={u2} expected={expected} (alphabet {:?} depth {depth})",
                alphabet
            ));
        }
        model_reports.push(json!({"alphabet": alphabet, "depth": depth, "unique_states_bfs": u1,
            "unique_states_dfs": u2, "expected_words": expected, "max_depth": d1, "transitions": t1, "invariant_evaluations": c1}));
        states += u1;
        transitions += t1;
        checked += c1;
        stats = stats.merge(st1);
    }

    // structured long inputs
    let mut long_inputs: Vec<Vec<u8>> = vec![
        vec![7; 2000],
        (0..2000).map(|i| if i % 2 == 0 { 1 } else { 2 }).collect(),
        (1..=255u8).collect(),
        (0..=255u8).rev().collect(),
    ];
    let mut sails = Vec::new();
    for e in [1u8, 2, 1, 3, 4, 1, 5] {
        sails.extend(std::iter::repeat(e).take(720));
    }
    long_inputs.push(sails);
    for w in &long_inputs {
        let _ = check_word_all_statuses(ctx, w);
        let o = check_word(ctx, w, false);
        stats.eval();
        stats.outcome(o);
        stats.nontrivial(w);
        stats.count("structured_long_inputs", 1);
    }

    // merge: full product of azimuth words
    let maxlen = if t { 4 } else { 3 };
    let ws = words_upto(&[1, 2, 3], maxlen);
    let n = ws.len();
    let merged: Stats = (0..n * n * 2)
        .into_par_iter()
        .fold(Stats::new, |mut st, idx| {
            let same = idx % 2 == 0;
            let a = &ws[(idx / 2) % n];
            let b = &ws[(idx / 2) / n];
            let mut o = "ok";
            for (spare, identical) in [((0usize, 0usize), false), ((0, a.len() + 2), false), ((b.len() + 2, 0), false), ((64, 64), false), ((0, 0), true), ((3, 0), true)] {
                let c = MergeCase { a: a.clone(), b: b.clone(), ea: 4, eb: if same { 4 } else { 5 }, spare, identical, ctor: 0 };
                if spare == (0, 0) {
                    for ctor in [1u8, 2] {
                        let r2 = check_merge(ctx, &MergeCase { ctor, ..c.clone() });
                        if r2 != "ok" && r2 != "err" {
                            o = r2;
                        }
                        st.eval();
                    }
                }
                let r = check_merge(ctx, &c);
                if r != "ok" || (spare == (0, 0) && !identical) {
                    o = r;
                }
                st.eval();
            }
            st.outcome(&format!("merge_{o}"));
            st.count("merge_cases", 1);
            if a.len() + b.len() >= 2 {
                st.nontrivial(format!("m{:?}{:?}{}", a, b, same).as_bytes());
            }
            if idx % 7919 == 3 {
                st.sample(3, || json!({"merge": {"a": a, "b": b, "same_elevation": same}, "outcome": o}));
            }
            st
        })
        .reduce(Stats::new, Stats::merge);
    // extra merge shapes: duplicated and unsorted azimuths, extremes
    for (a, b) in [
        (vec![720u16, 1, 720, 1], vec![1u16, 720, 360]),
        (vec![65535, 0], vec![0, 65535, 0]),
        ((1..=360).rev().collect::<Vec<u16>>(), (1..=360).collect::<Vec<u16>>()),
    ] {
        for same in [true, false] {
            let c = MergeCase { a: a.clone(), b: b.clone(), ea: 9, eb: if same { 9 } else { 0 }, spare: (3, b.len() + a.len()), identical: false, ctor: 1 };
            let o = check_merge(ctx, &c);
            stats.eval();
            stats.outcome(&format!("merge_{o}"));
        }
    }
    stats = stats.merge(merged);
    // history: sequences of grouping / merging calls on one fresh thread
    let halpha: Vec<Vec<u8>> = vec![vec![1, 1, 2], vec![0], vec![], vec![5; 300], vec![2, 1, 2, 2], vec![255, 255], (0..600).map(|i| (i % 2) as u8 + 1).collect()];
    let sh = history_check(
        ctx,
        "from_radials",
        halpha.len(),
        3,
        |i| match guarded(|| Sweep::from_radials(radials_for(&halpha[i]))) {
            Caught::Ret(v) => format!("{:?}", observe(&v).iter().map(|s| (s.0, s.1.len(), s.1.first().copied())).collect::<Vec<_>>()),
            Caught::Panic(p) => format!("panic:{}", panic_class(&p)),
        },
        |i| format!("word#{i}(len {})", halpha[i].len()),
    );
    let mcases: Vec<MergeCase> = vec![
        MergeCase { a: vec![3, 1, 2], b: vec![2, 2], ea: 1, eb: 1, spare: (0, 8), identical: false, ctor: 0 },
        MergeCase { a: (1..=40).rev().collect(), b: (1..=40).collect(), ea: 2, eb: 2, spare: (50, 0), identical: true, ctor: 0 },
        MergeCase { a: vec![1], b: vec![1], ea: 1, eb: 2, spare: (0, 0), identical: false, ctor: 0 },
        MergeCase { a: vec![], b: vec![7, 7, 7], ea: 0, eb: 0, spare: (4, 4), identical: true, ctor: 0 },
    ];
    let sm = history_check(
        ctx,
        "merge",
        mcases.len(),
        3,
        |i| {
            let before = ctx.failure_count();
            let o = check_merge(ctx, &mcases[i]);
            format!("{o}:{}", ctx.failure_count() - before)
        },
        |i| format!("{:?}", mcases[i]),
    );
    stats = stats.merge(sh).merge(sm);

    let mut cov = stats.coverage(
        "stateright BFS+DFS over elevation words (every word over each alphabet up to the depth); invariant runs the real Sweep::from_radials in every state and compares with a reference grouping, plus split-differential from non-initial states; every word of length <= 6 and every long input is also checked under 7 radial-status patterns that vary independently of the elevation number; merge: full product of azimuth-word pairs x {same,different} elevation x four spare-capacity configurations of the two vectors, and again with indistinguishable radials (same collection time: the same radial delivered twice must still be counted twice). non-trivial = word with >=2 runs, or merge with >=2 radials; distinct by hash of the word/pair",
        true,
        json!({"models": model_reports, "merge_word_len": maxlen, "merge_alphabet": [1,2,3]}),
    );
    cov["states"] = json!(states);
    cov["transitions"] = json!(transitions);
    cov["traces_validated_against_impl"] = json!(checked);
    (
        "model_checking",
        cov,
        vec![
            "overflow-checks on, debug-assertions off",
            "radial identity = unique (timestamp, position); radials built with the public Radial::new",
            "reference grouping model in harness (maximal equal runs)",
        ],
    )
}

pub fn replay(ctx: &'static Ctx, case: &Value) {
    match case["op"].as_str() {
        Some("from_radials") | Some("from_radials_split") => {
            let w: Vec<u8> = case["word"].as_array().map(|a| a.iter().map(|x| x.as_u64().unwrap_or(0) as u8).collect()).unwrap_or_default();
            let o = check_word(ctx, &w, true);
            let _ = check_word_all_statuses(ctx, &w);
            println!("replay from_radials word={:?} outcome={}", w, o);
        }
        Some("merge") => {
            let g = |k: &str| -> Vec<u16> { case[k].as_array().map(|a| a.iter().map(|x| x.as_u64().unwrap_or(0) as u16).collect()).unwrap_or_default() };
            let c = MergeCase { a: g("a"), b: g("b"), ea: case["ea"].as_u64().unwrap_or(0) as u8, eb: case["eb"].as_u64().unwrap_or(0) as u8, spare: (case["spare"][0].as_u64().unwrap_or(0) as usize, case["spare"][1].as_u64().unwrap_or(0) as usize), identical: case["identical"].as_bool().unwrap_or(false), ctor: case["ctor"].as_u64().unwrap_or(0) as u8 };
            let o = check_merge(ctx, &c);
            println!("replay merge {:?} outcome={}", c, o);
        }
        Some("history") => {
            let _ = run(ctx);
        }
        _ => machinery("C09 replay: unknown op"),
    }
}
