//! C08 — ICD date/time fields decode to the exact UTC instant.
//! E3: a cross over the complete day domain and the complete minute / millisecond domains, for
//! every date-time accessor of the decode and data crates, reached by decoding reference bytes.

use crate::core::*;
use crate::enc::*;
use nexrad_decode::messages as dm;
use rayon::prelude::*;
use serde_json::{json, Value};

#[derive(Clone, Copy, Debug, PartialEq, Eq)]
pub enum Acc {
    MsgHeader,
    T31Header,
    Radial,
    VolHeader,
    RdaBypass,
    RdaClutter,
    CfmHeader,
}

/// The millisecond accessors that exist in this build configuration (the model conversion needs
/// nexrad-decode's `nexrad-model` feature, the volume header decoder nexrad-data's serde + bincode).
#[cfg(all(feature = "f-conv", feature = "f-serde"))]
const MS_ACC: [Acc; 4] = [Acc::MsgHeader, Acc::T31Header, Acc::Radial, Acc::VolHeader];
#[cfg(all(feature = "f-conv", not(feature = "f-serde")))]
const MS_ACC: [Acc; 3] = [Acc::MsgHeader, Acc::T31Header, Acc::Radial];
#[cfg(all(not(feature = "f-conv"), feature = "f-serde"))]
const MS_ACC: [Acc; 3] = [Acc::MsgHeader, Acc::T31Header, Acc::VolHeader];
#[cfg(all(not(feature = "f-conv"), not(feature = "f-serde")))]
const MS_ACC: [Acc; 2] = [Acc::MsgHeader, Acc::T31Header];
const MIN_ACC: [Acc; 3] = [Acc::RdaBypass, Acc::RdaClutter, Acc::CfmHeader];

impl Acc {
    fn name(&self) -> &'static str {
        match self {
            Acc::MsgHeader => "message_header",
            Acc::T31Header => "type31_header",
            Acc::Radial => "radial_collection_timestamp",
            Acc::VolHeader => "volume_header",
            Acc::RdaBypass => "rda_bypass_map_generation",
            Acc::RdaClutter => "rda_clutter_filter_map_generation",
            Acc::CfmHeader => "clutter_filter_map_header",
        }
    }
    fn from_name(n: &str) -> Option<Acc> {
        [MS_ACC.as_slice(), MIN_ACC.as_slice()].concat().into_iter().find(|a| a.name() == n)
    }
    fn minutes(&self) -> bool {
        MIN_ACC.contains(self)
    }
}

/// Decoded carriers, built once from reference bytes; the (d, t) fields are then the public wire
/// fields of the decoded structs. `Full` re-decodes from bytes for every evaluation.
pub struct Carriers {
    mh: dm::message_header::MessageHeader,
    t31: dm::digital_radar_data::Message,
    rda: dm::rda_status_data::Message,
    cfm: dm::clutter_filter_map::Message,
}

impl Carriers {
    pub fn new() -> Self {
        let mh = dm::decode_message_header(&mut MsgHeader::simple(2, 1, 0).encode().as_slice()).expect("ref header decodes");
        let body = t31_body(&T31Header::basic(1, 1, 1, 0), &[], &Layout::default()).0;
        let t31 = dm::digital_radar_data::decode_digital_radar_data(&mut std::io::Cursor::new(body)).expect("ref t31 decodes");
        let rda = dm::rda_status_data::decode_rda_status_message(&mut rda_body(&rda_in_domain()).as_slice()).expect("ref rda decodes");
        let cfm = dm::clutter_filter_map::decode_clutter_filter_map(&mut clutter_body(1, 0, 0, &[]).as_slice()).expect("ref cfm decodes");
        Carriers { mh, t31, rda, cfm }
    }
}

thread_local! {
    /// Which radial the type-31 header describes besides its date and time: 0 = first radial of a
    /// volume (elevation 1, azimuth 1), 1 = mid-volume (elevation 3, azimuth 200), 2 = last radial
    /// of an elevation (14, 720, status 2), 3 = extreme numbers (255, 65535, status 4, other spacing).
    /// The instant is a function of the date and time fields alone.
    static T31_TEMPLATE: std::cell::Cell<u8> = const { std::cell::Cell::new(0) };
}

fn t31_template(d: u16, t: u32) -> T31Header {
    match T31_TEMPLATE.with(|x| x.get()) {
        1 => T31Header::basic(3, 200, d, t),
        2 => {
            let mut h = T31Header::basic(14, 720, d, t);
            h.status = 2;
            h
        }
        3 => {
            let mut h = T31Header::basic(255, 65535, d, t);
            h.status = 4;
            h.spacing = 2;
            h.cut_sector = 3;
            h.az_indexing = 100;
            h
        }
        _ => T31Header::basic(1, 1, d, t),
    }
}

/// Evaluate accessor `a` at (d, t) by decoding freshly encoded reference bytes.
/// Returns epoch milliseconds, None if the accessor returned None.
pub fn eval_decode(a: Acc, d: u32, t: u32) -> Caught<Option<i64>> {
    guarded(move || match a {
        Acc::MsgHeader => {
            let b = MsgHeader::simple(2, d as u16, t).encode();
            let h = dm::decode_message_header(&mut b.as_slice()).expect("decodes");
            h.date_time().map(|x| x.timestamp_millis())
        }
        Acc::T31Header => {
            let b = t31_body(&t31_template(d as u16, t), &[], &Layout::default()).0;
            let m = dm::digital_radar_data::decode_digital_radar_data(&mut std::io::Cursor::new(b)).expect("decodes");
            m.header.date_time().map(|x| x.timestamp_millis())
        }
        #[cfg(feature = "f-conv")]
        Acc::Radial => {
            let b = t31_body(&t31_template(d as u16, t), &[], &Layout::default()).0;
            let m = dm::digital_radar_data::decode_digital_radar_data(&mut std::io::Cursor::new(b)).expect("decodes");
            m.radial().ok().map(|r| r.collection_timestamp())
        }
        #[cfg(feature = "f-serde")]
        Acc::VolHeader => {
            let mut vh = VolHeader::basic();
            vh.date = d;
            vh.time = t;
            let h = nexrad_data::volume::Header::deserialize(&mut vh.encode().as_slice()).expect("decodes");
            h.date_time().map(|x| x.timestamp_millis())
        }
        #[cfg(not(feature = "f-conv"))]
        Acc::Radial => machinery("accessor does not exist in this build configuration"),
        #[cfg(not(feature = "f-serde"))]
        Acc::VolHeader => machinery("accessor does not exist in this build configuration"),
        Acc::RdaBypass | Acc::RdaClutter => {
            let mut hw = rda_in_domain();
            let base = if a == Acc::RdaBypass { 18 } else { 20 };
            hw[base] = d as u16;
            hw[base + 1] = t as u16;
            let m = dm::rda_status_data::decode_rda_status_message(&mut rda_body(&hw).as_slice()).expect("decodes");
            if a == Acc::RdaBypass {
                m.bypass_map_generation_date_time().map(|x| x.timestamp_millis())
            } else {
                m.clutter_filter_map_generation_date_time().map(|x| x.timestamp_millis())
            }
        }
        Acc::CfmHeader => {
            let b = clutter_body(d as u16, t as u16, 0, &[]);
            let m = dm::clutter_filter_map::decode_clutter_filter_map(&mut b.as_slice()).expect("decodes");
            m.header.date_time().map(|x| x.timestamp_millis())
        }
    })
}

/// Fast path for the large sweeps: mutate the public wire fields of an already decoded carrier.
fn eval_fast(c: &mut Carriers, a: Acc, d: u16, t: u32) -> Option<i64> {
    match a {
        Acc::MsgHeader => {
            c.mh.date = d;
            c.mh.time = t;
            c.mh.date_time().map(|x| x.timestamp_millis())
        }
        Acc::T31Header => {
            c.t31.header.date = d;
            c.t31.header.time = t;
            c.t31.header.date_time().map(|x| x.timestamp_millis())
        }
        #[cfg(feature = "f-conv")]
        Acc::Radial => {
            c.t31.header.date = d;
            c.t31.header.time = t;
            c.t31.radial().ok().map(|r| r.collection_timestamp())
        }
        #[cfg(feature = "f-serde")]
        Acc::VolHeader => {
            let mut vh = VolHeader::basic();
            vh.date = d as u32;
            vh.time = t;
            let h = nexrad_data::volume::Header::deserialize(&mut vh.encode().as_slice()).ok()?;
            h.date_time().map(|x| x.timestamp_millis())
        }
        #[cfg(not(feature = "f-conv"))]
        Acc::Radial => machinery("accessor does not exist in this build configuration"),
        #[cfg(not(feature = "f-serde"))]
        Acc::VolHeader => machinery("accessor does not exist in this build configuration"),
        Acc::RdaBypass => {
            c.rda.bypass_map_generation_date = d;
            c.rda.bypass_map_generation_time = t as u16;
            c.rda.bypass_map_generation_date_time().map(|x| x.timestamp_millis())
        }
        Acc::RdaClutter => {
            c.rda.clutter_filter_map_generation_date = d;
            c.rda.clutter_filter_map_generation_time = t as u16;
            c.rda.clutter_filter_map_generation_date_time().map(|x| x.timestamp_millis())
        }
        Acc::CfmHeader => {
            c.cfm.header.map_generation_date = d;
            c.cfm.header.map_generation_time = t as u16;
            c.cfm.header.date_time().map(|x| x.timestamp_millis())
        }
    }
}

/// Offsets of the wall clock from the instant under test (ms).
pub const CLOCK_DELTAS_MS: [i64; 13] = [-86_400_000, -3_600_000, -31_000, -15_000, -1_000, -1, 0, 1, 1_000, 15_000, 31_000, 3_600_000, 86_400_000];

fn expected(a: Acc, d: u32, t: u32) -> i64 {
    if a.minutes() {
        ref_epoch_ms(d as i64, t as i64 * 60_000)
    } else {
        ref_epoch_ms(d as i64, t as i64)
    }
}

fn in_range(a: Acc, d: u32, t: u32) -> bool {
    (1..=65535).contains(&d) && if a.minutes() { t < 1440 } else { t < 86_400_000 }
}

fn day_class(d: u32) -> &'static str {
    match d {
        0 => "d=0",
        1 => "d=1",
        65535 => "d=65535",
        x if x > 65535 => "d>65535",
        _ => "d_mid",
    }
}

fn judge(ctx: &Ctx, a: Acc, d: u32, t: u32, got: Caught<Option<i64>>, st: &mut Stats) {
    let wit = || json!({"accessor": a.name(), "d": d, "t": t});
    st.eval();
    let inr = in_range(a, d, t);
    match got {
        Caught::Panic(p) => {
            ctx.fail(
                &format!("datetime:{}:panic:{}", a.name(), if inr { "in_range" } else { "out_of_range" }),
                || format!("d={d} t={t}: {p}"),
                wit,
            );
            st.outcome("panic");
        }
        Caught::Ret(v) => {
            if inr {
                let e = expected(a, d, t);
                if v != Some(e) {
                    let kind = match v {
                        None => "none".to_string(),
                        Some(g) => {
                            let diff = g - e;
                            if diff % 86_400_000 == 0 { "off_by_whole_days".into() } else if diff.abs() < 86_400_000 { "time_of_day_wrong".into() } else { "wrong".to_string() }
                        }
                    };
                    ctx.fail(
                        &format!("datetime:{}:{}:{}", a.name(), kind, day_class(d)),
                        || format!("d={d} t={t}: got {:?}, expected {e}", v),
                        wit,
                    );
                    st.outcome("wrong");
                } else {
                    st.outcome("exact");
                }
            } else {
                st.outcome(if v.is_some() { "out_of_range_some" } else { "out_of_range_none" });
            }
        }
    }
}

pub fn run(ctx: &'static Ctx) -> (&'static str, Value, Vec<&'static str>) {
    let thorough = ctx.tier.thorough();
    let t_ms: Vec<u32> = vec![0, 1, 999, 1000, 59_999, 60_000, 3_599_999, 3_600_000, 43_200_000, 86_399_999];
    let t_min: Vec<u32> = vec![0, 1, 59, 60, 719, 720, 1439];
    let dset: Vec<u32> = vec![1, 2, 59, 60, 365, 366, 789, 790, 11_016, 11_017, 19_000, 47_540, 47_541, 47_542, 65_534, 65_535];

    // (1) full re-decode from reference bytes: all days x boundary times, for every accessor
    let s1: Stats = (0u32..65536)
        .into_par_iter()
        .fold(Stats::new, |mut st, d| {
            for a in MS_ACC {
                for &t in &t_ms {
                    judge(ctx, a, d, t, eval_decode(a, d, t), &mut st);
                }
            }
            for a in MIN_ACC {
                for &t in &t_min {
                    judge(ctx, a, d, t, eval_decode(a, d, t), &mut st);
                }
            }
            st.nontrivial(&d.to_be_bytes());
            st.dim("day_class", day_class(d));
            if d == 19_000 {
                st.sample(4, || json!({"accessor": "message_header", "d": d, "t_ms": 43_200_000u32, "epoch_ms": eval_decode(Acc::MsgHeader, d, 43_200_000).ret()}));
            }
            st
        })
        .reduce(Stats::new, Stats::merge);

    // (2) D x all 1440 minutes (+ all 65536 minute values, out-of-range clause) through re-decode
    let s2: Stats = (0u32..65536)
        .into_par_iter()
        .fold(Stats::new, |mut st, t| {
            for a in MIN_ACC {
                for &d in &dset {
                    judge(ctx, a, d, t, eval_decode(a, d, t), &mut st);
                }
                judge(ctx, a, 0, t, eval_decode(a, 0, t), &mut st);
            }
            st.nontrivial(&(t | 0x8000_0000).to_be_bytes());
            st
        })
        .reduce(Stats::new, Stats::merge);

    // (3) out-of-range ms values and day 0 / volume-header dates beyond 16 bits
    let mut s3 = Stats::new();
    for a in MS_ACC {
        for d in [0u32, 1, 19_000, 65_535] {
            for t in [86_400_000u32, 86_400_001, 172_800_000, 0x7FFF_FFFF, 0x8000_0000, 0xFFFF_FFFF] {
                judge(ctx, a, d, t, eval_decode(a, d, t), &mut s3);
            }
        }
        judge(ctx, a, 0, 0, eval_decode(a, 0, 0), &mut s3);
    }
    for d in [65_536u32, 65_537, 0x0001_0001, 0x7FFF_FFFF, 0xFFFF_FFFF] {
        for t in [0u32, 86_399_999, 0xFFFF_FFFF] {
            #[cfg(feature = "f-serde")]
            judge(ctx, Acc::VolHeader, d, t, eval_decode(Acc::VolHeader, d, t), &mut s3);
            #[cfg(not(feature = "f-serde"))]
            let _ = (d, t);
        }
    }

    // (4) big sweeps on the fast path: all days x all minutes; D x all milliseconds (thorough)
    let days_step = 1;
    let s4: Stats = (1u32..65536)
        .into_par_iter()
        .filter(|d| d % days_step == 0 || *d < 800 || *d > 65_000)
        .fold(
            || (Stats::new(), Carriers::new()),
            |(mut st, mut c), d| {
                for a in MIN_ACC {
                    for t in 0u32..1440 {
                        let g = guarded(|| eval_fast(&mut c, a, d as u16, t));
                        if g != Caught::Ret(Some(expected(a, d, t))) {
                            judge(ctx, a, d, t, eval_decode(a, d, t), &mut st);
                        }
                    }
                    st.evaluations += 1440;
                }
                *st.counters.entry("fast_path_day_x_minute".into()).or_insert(0) += 3 * 1440;
                (st, c)
            },
        )
        .map(|x| x.0)
        .reduce(Stats::new, Stats::merge);

    let ms_days: Vec<u32> = if thorough { dset.clone() } else { vec![1, 19_000, 65_535] };
    let ms_step: u32 = if thorough { 1 } else { 7 };
    let chunks: Vec<(u32, u32)> = ms_days.iter().flat_map(|d| (0..864u32).map(move |k| (*d, k))).collect();
    let s5: Stats = chunks
        .into_par_iter()
        .fold(
            || (Stats::new(), Carriers::new()),
            |(mut st, mut c), (d, k)| {
                let lo = k * 100_000;
                let mut n = 0u64;
                for a in MS_ACC.iter().copied().filter(|a| *a != Acc::VolHeader) {
                    let mut t = lo + (d % ms_step);
                    while t < lo + 100_000 {
                        let g = guarded(|| eval_fast(&mut c, a, d as u16, t));
                        if g != Caught::Ret(Some(expected(a, d, t))) {
                            judge(ctx, a, d, t, eval_decode(a, d, t), &mut st);
                        }
                        n += 1;
                        t += ms_step;
                    }
                }
                // the data crate's accessor re-decodes 24 bytes each time: every 5th ms in thorough
                let vstep = ms_step * 5;
                let mut t = lo + (d % vstep);
                while cfg!(feature = "f-serde") && t < lo + 100_000 {
                    let g = guarded(|| eval_fast(&mut c, Acc::VolHeader, d as u16, t));
                    if g != Caught::Ret(Some(expected(Acc::VolHeader, d, t))) {
                        judge(ctx, Acc::VolHeader, d, t, eval_decode(Acc::VolHeader, d, t), &mut st);
                    }
                    n += 1;
                    t += vstep;
                }
                st.evaluations += n;
                *st.counters.entry("fast_path_day_x_millisecond".into()).or_insert(0) += n;
                (st, c)
            },
        )
        .map(|x| x.0)
        .reduce(Stats::new, Stats::merge);

    // history dimension: every ordered pair (and a,b,a triple) of accessors called back to back on a
    // fresh thread with related (d, t) arguments: same day and same raw number in different units,
    // same day different time, different day same time
    let all_acc: Vec<Acc> = [MS_ACC.as_slice(), MIN_ACC.as_slice()].concat();
    let days = [1u32, 20_730, 65_535];
    let times = [0u32, 1, 600, 1439];
    let hist = std::sync::Mutex::new(Stats::new());
    for_each_history(all_acc.len(), 2, |w| {
        let mut st = Stats::new();
        for &d1 in &days {
            for &d2 in &days {
                for &t1 in &times {
                    for &t2 in &times {
                        // sequence: w[0](d1,t1), w[1](d2,t2) (if present), w[0](d1,t1) again
                        let mut seq: Vec<(Acc, u32, u32)> = vec![(all_acc[w[0]], d1, t1)];
                        if w.len() > 1 {
                            seq.push((all_acc[w[1]], d2, t2));
                            seq.push((all_acc[w[0]], d1, t1));
                        } else if (d1, t1) != (d2, t2) {
                            seq.push((all_acc[w[0]], d2, t2));
                        }
                        for (step, (a, d, t)) in seq.iter().enumerate() {
                            let got = eval_decode(*a, *d, *t);
                            st.evaluations += 1;
                            if in_range(*a, *d, *t) && got != Caught::Ret(Some(expected(*a, *d, *t))) {
                                ctx.fail(
                                    &format!("history:datetime_depends_on_previous_call:{}", a.name()),
                                    || format!("call #{step} of the sequence {:?}: got {:?}, expected {}", seq.iter().map(|x| (x.0.name(), x.1, x.2)).collect::<Vec<_>>(), got, expected(*a, *d, *t)),
                                    || json!({"op": "history", "sequence": seq.iter().map(|x| json!([x.0.name(), x.1, x.2])).collect::<Vec<_>>()}),
                                );
                            }
                        }
                    }
                }
            }
        }
        st.count("history_accessor_sequences", 1);
        st.nontrivial(format!("h{:?}", w).as_bytes());
        let mut g = hist.lock().unwrap_or_else(|e| e.into_inner());
        let old = std::mem::take(&mut *g);
        *g = old.merge(st);
    });
    let s6 = hist.into_inner().unwrap_or_else(|e| e.into_inner());

    // wall-clock dimension: the decoded instant must not depend on where "now" lies relative to it.
    // For every day x 3 times x every accessor the thread's wall clock is set to the expected instant
    // plus each delta (clamped at the epoch) before the accessor is called.
    let t_clock_ms = [0u32, 43_200_000, 86_399_999];
    let t_clock_min = [0u32, 720, 1439];
    let s7: Stats = (1u32..65536)
        .into_par_iter()
        .fold(
            || (Stats::new(), Carriers::new()),
            |(mut st, mut c), d| {
                for a in all_acc.iter().copied() {
                    let ts: &[u32] = if a.minutes() { &t_clock_min } else { &t_clock_ms };
                    for &t in ts {
                        let e = expected(a, d, t);
                        for &delta in &CLOCK_DELTAS_MS {
                            let now_ms = (e + delta).max(0);
                            let g = crate::clock::with_thread_now_ms(now_ms, || guarded(|| eval_fast(&mut c, a, d as u16, t)));
                            st.evaluations += 1;
                            if g != Caught::Ret(Some(e)) {
                                let g2 = crate::clock::with_thread_now_ms(now_ms, || eval_decode(a, d, t));
                                if g2 != Caught::Ret(Some(e)) {
                                    ctx.fail(
                                        &format!("clock:datetime_depends_on_wall_clock:{}", a.name()),
                                        || format!("d={d} t={t} with the wall clock at instant{delta:+} ms: got {:?}, expected {e}", g2),
                                        || json!({"op": "clock", "accessor": a.name(), "d": d, "t": t, "now_ms": now_ms}),
                                    );
                                }
                            }
                        }
                    }
                }
                *st.counters.entry("wall_clock_relative_evaluations".into()).or_insert(0) += (all_acc.len() * 3 * CLOCK_DELTAS_MS.len()) as u64;
                (st, c)
            },
        )
        .map(|x| x.0)
        .reduce(Stats::new, Stats::merge);
    // the other fields of the radial header: all days x five times of day under three more header
    // templates (mid-volume radial, last radial of an elevation, extreme numbers)
    let t31_acc: Vec<Acc> = MS_ACC.iter().copied().filter(|a| matches!(a, Acc::T31Header | Acc::Radial)).collect();
    let mut s8 = Stats::new();
    for template in 1..=3u8 {
        let part: Stats = (0u32..65536)
            .into_par_iter()
            .fold(Stats::new, |mut st, d| {
                T31_TEMPLATE.with(|x| x.set(template));
                for a in t31_acc.iter().copied() {
                    for t in [0u32, 1, 5_000, 2_355_000, 86_399_999] {
                        let got = eval_decode(a, d, t);
                        if in_range(a, d, t) && got != Caught::Ret(Some(expected(a, d, t))) {
                            ctx.fail(
                                &format!("datetime:{}:depends_on_other_header_fields", a.name()),
                                || format!("d={d} t={t} in header template {template}: got {:?}, expected {}", got, expected(a, d, t)),
                                || json!({"op": "template", "accessor": a.name(), "d": d, "t": t, "template": template}),
                            );
                        }
                        st.evaluations += 1;
                    }
                }
                T31_TEMPLATE.with(|x| x.set(0));
                st
            })
            .reduce(Stats::new, Stats::merge);
        s8 = s8.merge(part);
    }
    s8.count("header_templates", 3);
    let stats = s1.merge(s2).merge(s3).merge(s4).merge(s5).merge(s6).merge(s7).merge(s8);
    let exhaustive_note = if thorough {
        "cross: all 65536 days x boundary ms/min (re-decoded); all 65536 minute values x D; all days x all 1440 minutes; D(16 days) x all 86.4M ms for the decode-crate accessors (every 5th ms for the volume header)"
    } else {
        "cross: all 65536 days x boundary ms/min (re-decoded); all 65536 minute values x D; all days x all 1440 minutes; 3 days x every 7th ms"
    };
    let cov = stats.coverage(
        &format!("{exhaustive_note}. header templates: all days x 5 times x 3 further type-31 header templates (mid-volume radial, last radial of an elevation, extreme numbers). wall clock: all 65535 days x 3 times x 7 accessors x 13 offsets of the thread's wall clock from the instant under test (-1 d .. +1 d, incl. +-1 ms, +-1 s, +-15 s, +-31 s). history: every ordered pair of the seven accessors called back to back on a fresh thread over 3 days x 4 raw time values each (same raw number in ms and minutes, same day / different day). non-trivial = distinct day or minute value on the re-decode path; oracle = (d-1)*86400000 + t in i64, identical for both crates"),
        thorough,
        json!({"t_ms": t_ms, "t_min": t_min, "D": dset, "not_covered": "the full 65535 x 86.4M (d, ms) product"}),
    );
    (
        "exploration",
        cov,
        vec![
            "fast path mutates the public wire fields of a decoded struct instead of re-decoding bytes (any mismatch is re-judged through the byte path)",
            "overflow-checks on, debug-assertions off",
        ],
    )
}

impl<T> Caught<T> {
    pub fn ret(self) -> Option<T> {
        match self {
            Caught::Ret(v) => Some(v),
            Caught::Panic(_) => None,
        }
    }
}

pub fn replay(ctx: &'static Ctx, case: &Value) {
    if case["op"].as_str() == Some("history") {
        for (step, x) in case["sequence"].as_array().cloned().unwrap_or_default().iter().enumerate() {
            let a = Acc::from_name(x[0].as_str().unwrap_or("")).unwrap_or_else(|| machinery("C08 replay: accessor"));
            let (d, t) = (x[1].as_u64().unwrap_or(0) as u32, x[2].as_u64().unwrap_or(0) as u32);
            let got = eval_decode(a, d, t);
            println!("history step {step}: {} d={d} t={t}: got {:?} expected {}", a.name(), got, expected(a, d, t));
            if in_range(a, d, t) && got != Caught::Ret(Some(expected(a, d, t))) {
                ctx.fail(&format!("history:datetime_depends_on_previous_call:{}", a.name()), || format!("step {step}"), || case.clone());
            }
        }
        return;
    }
    let a = Acc::from_name(case["accessor"].as_str().unwrap_or("")).unwrap_or_else(|| machinery("C08 replay: accessor"));
    let d = case["d"].as_u64().unwrap_or(0) as u32;
    let t = case["t"].as_u64().unwrap_or(0) as u32;
    if case["op"].as_str() == Some("template") {
        T31_TEMPLATE.with(|x| x.set(case["template"].as_u64().unwrap_or(0) as u8));
        let got = eval_decode(a, d, t);
        T31_TEMPLATE.with(|x| x.set(0));
        println!("replay {} d={d} t={t} template {}: got {:?} expected {}", a.name(), case["template"], got, expected(a, d, t));
        if in_range(a, d, t) && got != Caught::Ret(Some(expected(a, d, t))) {
            ctx.fail(&format!("datetime:{}:depends_on_other_header_fields", a.name()), || format!("{got:?}"), || case.clone());
        }
        return;
    }
    if case["op"].as_str() == Some("clock") {
        let now_ms = case["now_ms"].as_i64().unwrap_or(0);
        let got = crate::clock::with_thread_now_ms(now_ms, || eval_decode(a, d, t));
        println!("replay {} d={d} t={t} with the wall clock at {now_ms} ms: got {:?} expected {}", a.name(), got, expected(a, d, t));
        if got != Caught::Ret(Some(expected(a, d, t))) {
            ctx.fail(&format!("clock:datetime_depends_on_wall_clock:{}", a.name()), || format!("{got:?}"), || case.clone());
        }
        return;
    }
    let mut st = Stats::new();
    let got = eval_decode(a, d, t);
    println!("replay {} d={d} t={t}: got {:?} expected {} (in range: {})", a.name(), got, expected(a, d, t), in_range(a, d, t));
    judge(ctx, a, d, t, got, &mut st);
}
