//! C04 — message decoding is total: arbitrary bytes give a value or an error.
//! E1/E3: every prefix of valid streams, all executions with <= 2 byte deviations from valid
//! streams (pairs restricted to structural bytes), field-extreme products, and an exhaustive small
//! scope of byte strings at every entry point. Oracle: returns (no panic), terminates (fuel +
//! watchdog), peak allocation <= 4 MiB + 64 * len.

use crate::core::*;
use crate::enc::*;
use crate::guard::*;
use crate::props::c03::message_bytes;
use crate::t31::*;
use nexrad_decode::messages as dm;
use rayon::prelude::*;
use serde_json::{json, Value};
use std::time::Duration;

pub const ENTRY_NAMES: [&str; 7] = ["decode_messages", "decode_message_header", "decode_message_contents", "decode_digital_radar_data", "decode_rda_status_message", "decode_volume_coverage_pattern", "decode_clutter_filter_map"];

fn type_of(code: u8) -> dm::MessageType {
    // obtain the MessageType for a code through the public header accessor
    let h = dm::decode_message_header(&mut MsgHeader::simple(code, 1, 0).encode().as_slice()).expect("header");
    h.message_type()
}

#[derive(Debug)]
enum Out {
    Ok(usize),
    Err,
}

/// One call of entry point `entry` (with `code` for decode_message_contents) on `bytes`.
/// Returns an outcome label; failures are reported to ctx.
pub fn call(ctx: &Ctx, entry: usize, code: u8, bytes: &[u8], origin: &str, st: &mut Stats) -> &'static str {
    let wit = || json!({"entry": ENTRY_NAMES[entry], "type_code": code, "bytes_hex": hex(bytes), "origin": origin});
    let len = bytes.len();
    let owned = bytes.to_vec();
    st.eval();
    let (r, mem) = measure(|| {
        guarded(move || -> (Out, bool, Vec<dm::digital_radar_data::Message>) {
            match entry {
                0 => {
                    let mut rd = FuelReader::new(owned);
                    let r = dm::decode_messages(&mut rd);
                    let ex = rd.exhausted;
                    match r {
                        Ok(v) => {
                            let n = v.len();
                            let radials = v
                                .into_iter()
                                .filter_map(|m| match m.into_contents() {
                                    dm::MessageContents::DigitalRadarData(d) => Some(*d),
                                    _ => None,
                                })
                                .collect();
                            (Out::Ok(n), ex, radials)
                        }
                        Err(_) => (Out::Err, ex, vec![]),
                    }
                }
                1 => match dm::decode_message_header(&mut owned.as_slice()) {
                    Ok(_) => (Out::Ok(1), false, vec![]),
                    Err(_) => (Out::Err, false, vec![]),
                },
                2 => {
                    let mut rd = FuelReader::new(owned);
                    let r = dm::decode_message_contents(&mut rd, type_of(code));
                    let ex = rd.exhausted;
                    match r {
                        Ok(dm::MessageContents::DigitalRadarData(d)) => (Out::Ok(1), ex, vec![*d]),
                        Ok(_) => (Out::Ok(1), ex, vec![]),
                        Err(_) => (Out::Err, ex, vec![]),
                    }
                }
                3 => {
                    let mut rd = FuelReader::new(owned);
                    let r = dm::digital_radar_data::decode_digital_radar_data(&mut rd);
                    let ex = rd.exhausted;
                    match r {
                        Ok(d) => (Out::Ok(1), ex, vec![d]),
                        Err(_) => (Out::Err, ex, vec![]),
                    }
                }
                4 => match dm::rda_status_data::decode_rda_status_message(&mut owned.as_slice()) {
                    Ok(_) => (Out::Ok(1), false, vec![]),
                    Err(_) => (Out::Err, false, vec![]),
                },
                5 => match dm::volume_coverage_pattern::decode_volume_coverage_pattern(&mut owned.as_slice()) {
                    Ok(m) => (Out::Ok(m.elevations.len()), false, vec![]),
                    Err(_) => (Out::Err, false, vec![]),
                },
                _ => match dm::clutter_filter_map::decode_clutter_filter_map(&mut owned.as_slice()) {
                    Ok(m) => (Out::Ok(m.elevation_segments.len()), false, vec![]),
                    Err(_) => (Out::Err, false, vec![]),
                },
            }
        })
    });
    let e = ENTRY_NAMES[entry];
    let bound = (4usize << 20) + 64 * len;
    if mem.peak > bound {
        ctx.fail(&format!("memory:{e}"), || format!("peak {} bytes (largest request {}) for {} input bytes; bound {}", mem.peak, mem.largest, len, bound), wit);
    }
    match r {
        Caught::Panic(p) => {
            ctx.fail(&format!("panic:{e}:{}", panic_class(&p)), || format!("{p} (input {} bytes, origin {origin})", len), wit);
            "panic"
        }
        Caught::Ret((out, exhausted, radials)) => {
            if exhausted {
                ctx.fail(&format!("non_termination:{e}"), || format!("reader fuel exhausted after {} operations on {} bytes", 64 + 8 * len, len), wit);
                return "fuel";
            }
            // radial conversion of whatever decoded
            for d in radials {
                st.evaluations += 1;
                let d2 = d.clone();
                let (rr, mem2) = measure(|| guarded(move || (d.radial().is_ok(), d2.into_radial().is_ok())));
                if mem2.peak > bound {
                    ctx.fail("memory:radial_conversion", || format!("peak {} for {} input bytes", mem2.peak, len), wit);
                }
                if let Caught::Panic(p) = rr {
                    ctx.fail(&format!("panic:radial_conversion:{}", panic_class(&p)), || p.clone(), wit);
                    return "panic";
                }
            }
            match out {
                Out::Ok(_) => "ok",
                Out::Err => "err",
            }
        }
    }
}

fn all_entries(ctx: &Ctx, bytes: &[u8], origin: &str, codes: &[u8], st: &mut Stats) {
    for entry in 0..7 {
        if entry == 2 {
            for &c in codes {
                let o = call(ctx, entry, c, bytes, origin, st);
                st.outcome(o);
            }
        } else {
            let o = call(ctx, entry, 0, bytes, origin, st);
            st.outcome(o);
        }
    }
}

/// structural byte positions of a type-31 message (offsets relative to the message start)
fn structural_positions(msg: &[u8]) -> Vec<usize> {
    let mut v = vec![12, 13, 15]; // size field, type code
    if msg.len() < 60 || msg[15] != 31 {
        // fixed frame: body starts at 28; VCP cut count / RDA / clutter counts near the start
        v.extend(28..(28 + 12).min(msg.len()));
        return v;
    }
    let b = 28;
    v.extend([b + 30, b + 31]); // block count
    let n = rd(msg, b + 30, 2) as usize;
    for i in 0..n {
        let p = b + 32 + 4 * i;
        v.extend(p..p + 4);
        let ptr = rd(msg, p, 4) as usize;
        let at = b + ptr;
        if at + 28 <= msg.len() {
            v.extend(at..at + 4); // id
            if msg[at] == b'D' {
                v.extend([at + 8, at + 9, at + 19]); // gates, word size
            }
        }
    }
    v.sort();
    v.dedup();
    v.into_iter().filter(|p| *p < msg.len()).collect()
}

const MUT_VALUES: usize = 8;
fn mut_value(x: u8, k: usize) -> u8 {
    match k {
        0 => 0x00,
        1 => 0x01,
        2 => 0x7F,
        3 => 0x80,
        4 => 0xFF,
        5 => x ^ 0xFF,
        6 => x.wrapping_add(1),
        _ => x.wrapping_sub(1),
    }
}

fn t31_extreme(count: u16, ptrs: &[u32], name: &[u8; 3], gates: u16, ws: u8, present_data: usize) -> Vec<u8> {
    // header + pointer table as given + one moment block at offset 32 + 4*ptrs.len()
    let mut body = T31Header::basic(1, 1, 19000, 0).encode();
    body.extend_from_slice(&count.to_be_bytes());
    for p in ptrs {
        body.extend_from_slice(&p.to_be_bytes());
    }
    let mut blk = W::new();
    blk.u8(b'D').bytes(name).u32(0).u16(gates).u16(2125).u16(250).u16(50).u16(16).u8(0).u8(ws).f32(2.0).f32(66.0);
    body.extend_from_slice(&blk.0);
    body.extend(std::iter::repeat(7u8).take(present_data));
    body
}

// ---- deep inputs (isolated) ------------------------------------------------------------------

/// Kinds of message repeated back to back in one long stream. The failing kinds matter as much as
/// the valid ones: error handling that recurses or accumulates per message only shows on long runs.
pub const DEEP_KINDS: [&str; 9] = ["status", "t31_basic", "t31_unknown_block_name", "t31_unknown_block_type", "t31_pointer_past_end", "undecoded_type_200", "type_0", "t31_empty", "vcp"];

fn deep_message(kind: usize, pos: usize) -> Vec<u8> {
    use crate::props::c03::message_bytes;
    match kind {
        0 => message_bytes(0, pos),
        1 => message_bytes(7, pos),
        2 | 3 | 4 => {
            // a small radial whose single moment block is broken in one way
            let (h, mut b) = simple_radial(1, 1 + (pos % 700) as u16, 19000, pos as u32, &[3], 4, None);
            let last = b.len() - 1;
            let mut raw = b[last].bytes.clone();
            match kind {
                2 => raw[1..4].copy_from_slice(b"XXX"),
                3 => raw[0] = b'Q',
                _ => {}
            }
            b[last] = Block::raw(raw[0], &[raw[1], raw[2], raw[3]], &raw[4..]);
            let mut m = t31_message(&MsgHeader::simple(31, 19000, pos as u32), &h, &b, &Layout::default());
            if kind == 4 {
                // last pointer far beyond the message
                let at = 28 + 32 + 4 * last;
                m[at..at + 4].copy_from_slice(&0x00FF_FFFFu32.to_be_bytes());
            }
            // the header's size field states the true length (halfwords after the 12-byte prefix)
            let hw = ((m.len() - 12) / 2) as u16;
            m[12..14].copy_from_slice(&hw.to_be_bytes());
            m
        }
        5 => message_bytes(5, pos),
        6 => {
            let mut m = message_bytes(3, pos);
            m[15] = 0;
            m
        }
        7 => message_bytes(6, pos),
        _ => message_bytes(1, pos),
    }
}

/// Child-process side: every deep stream decoded on a thread with the default 2 MiB stack.
pub fn worker(ctx: &'static Ctx) {
    let section = std::env::var("VERIF_SECTION").unwrap_or_default();
    if section != "deep" {
        machinery("C04 worker: unknown section");
    }
    let only: Option<usize> = std::env::var("VERIF_DEEP_KIND").ok().and_then(|k| k.parse().ok());
    let ns: Vec<usize> = if ctx.tier.thorough() { vec![3_000, 30_000, 300_000] } else { vec![3_000, 30_000] };
    let mut evals = 0u64;
    for (k, name) in DEEP_KINDS.iter().enumerate() {
        if only.map(|o| o != k).unwrap_or(false) {
            continue;
        }
        for &n in &ns {
            use std::io::Write;
            println!("SECTION_CASE {k}:{name}:{n}");
            let _ = std::io::stdout().flush();
            let one = deep_message(k, 0);
            let mut stream = Vec::with_capacity(one.len() * n);
            for i in 0..n {
                if i < 64 { stream.extend_from_slice(&deep_message(k, i)) } else { stream.extend_from_slice(&one) }
            }
            let h = std::thread::Builder::new().spawn(move || guarded(move || dm::decode_messages(&mut std::io::Cursor::new(stream)).map(|v| v.len()).map_err(|_| ())));
            let r = h.ok().and_then(|h| h.join().ok());
            evals += 1;
            match r {
                Some(Caught::Ret(_)) => {}
                Some(Caught::Panic(p)) => ctx.fail(&format!("panic:decode_messages:deep_input:{}", panic_class(&p)), || format!("{n} x {name}: {p}"), || json!({"op": "deep", "kind": k, "n": n})),
                None => ctx.fail("abort:decode_messages:deep_input", || format!("{n} x {name}: decoding thread died"), || json!({"op": "deep", "kind": k, "n": n})),
            }
        }
    }
    println!("WORKER_RESULT {}", json!({"fails": ctx.export_fails(), "evaluations": evals}));
}

/// Parent side of the deep-input section.
fn deep_section(ctx: &Ctx, st: &mut Stats, only: Option<usize>) {
    let env: Vec<(&str, String)> = only.map(|k| vec![("VERIF_DEEP_KIND", k.to_string())]).unwrap_or_default();
    match run_isolated("C04", ctx.tier, "deep", &env) {
        Ok(v) => {
            ctx.import_fails(&v["fails"]);
            st.evaluations += v["evaluations"].as_u64().unwrap_or(0);
            st.count("deep_streams_decoded_in_a_child_process", v["evaluations"].as_u64().unwrap_or(0));
        }
        Err((case, how)) => {
            let kind: usize = case.split(':').next().and_then(|k| k.parse().ok()).unwrap_or(0);
            ctx.fail(
                "abort:decode_messages:deep_input",
                || format!("the process decoding a long stream ({case} = kind:name:messages) on a 2 MiB stack died instead of returning a value or an error: {how}"),
                || json!({"op": "deep", "kind": kind, "case": case}),
            );
        }
    }
}

pub fn run(ctx: &'static Ctx) -> (&'static str, Value, Vec<&'static str>) {
    let thorough = ctx.tier.thorough();
    {
        let ctxw: &'static Ctx = ctx;
        start_watchdog(Duration::from_secs(30), 24 << 30, move |kind, id, detail| {
            ctxw.fail(&format!("{kind}:watchdog"), || detail.clone(), || json!({"watchdog": kind, "case": id.map(|i| [i.a, i.b, i.c])}));
            let _ = ctxw.finish("exploration", json!({"evaluations": CASES_STARTED.load(std::sync::atomic::Ordering::Relaxed), "distinct_nontrivial": 0, "rule": "aborted by watchdog", "samples": []}), vec![]);
        });
    }
    let contents_codes: Vec<u8> = vec![2, 5, 15, 31, 1, 0, 200];
    let all_codes: Vec<u8> = (0..=255).collect();

    // (a) every prefix of valid streams
    let mut streams: Vec<Vec<usize>> = vec![];
    for len in 1..=2 {
        for w in words(9, len) {
            streams.push(w.iter().map(|x| *x as usize).collect());
        }
    }
    if thorough {
        for w in words(9, 3) {
            let s: Vec<usize> = w.iter().map(|x| *x as usize).collect();
            if (s[0] * 5 + s[1] * 3 + s[2]) % 4 == 0 {
                streams.push(s);
            }
        }
    }
    let sa: Stats = streams
        .par_iter()
        .enumerate()
        .fold(Stats::new, |mut st, (si, syms)| {
            let stream: Vec<u8> = syms.iter().enumerate().flat_map(|(i, s)| message_bytes(*s, i)).collect();
            let origin = format!("prefix of stream {:?}", syms);
            let step = if thorough { 1 } else if stream.len() > 3000 { 3 } else { 1 };
            let mut t = 0;
            while t <= stream.len() {
                begin_case(CaseId { a: 1, b: si as u64, c: t as u64 });
                let o = call(ctx, 0, 0, &stream[..t], &origin, &mut st);
                st.outcome(o);
                // the same prefix minus the message header through the contents / body entry points
                if t >= 28 {
                    let code = stream[15];
                    let o = call(ctx, 2, code, &stream[28..t], &origin, &mut st);
                    st.outcome(o);
                    let e = match code {
                        31 => 3,
                        2 => 4,
                        5 => 5,
                        15 => 6,
                        _ => 1,
                    };
                    let o = call(ctx, e, 0, &stream[28..t], &origin, &mut st);
                    st.outcome(o);
                }
                end_case();
                st.nontrivial(format!("a{si}/{t}").as_bytes());
                t += step;
            }
            st.count("a_prefix_streams", 1);
            st
        })
        .reduce(Stats::new, Stats::merge);

    // (b) <= 2 byte deviations from small valid streams
    let small: Vec<Vec<usize>> = vec![vec![6], vec![7], vec![8], vec![7, 7], vec![6, 7], vec![7, 0], vec![1], vec![0, 7], vec![2]];
    let mut jobs: Vec<(usize, usize, usize)> = Vec::new(); // (stream, position, second position or MAX)
    let small_bytes: Vec<Vec<u8>> = small.iter().map(|syms| syms.iter().enumerate().flat_map(|(i, s)| message_bytes(*s, i)).collect()).collect();
    for (si, b) in small_bytes.iter().enumerate() {
        let single_positions: Vec<usize> = if b.len() <= 700 || thorough { (0..b.len()).collect() } else { (0..b.len()).filter(|p| *p < 400 || p % 5 == 0).collect() };
        for p in single_positions {
            jobs.push((si, p, usize::MAX));
        }
        let sp = structural_positions(b);
        if small[si].iter().all(|s| *s >= 6) || thorough {
            for (i, p) in sp.iter().enumerate() {
                for q in sp.iter().skip(i + 1) {
                    jobs.push((si, *p, *q));
                }
            }
        }
    }
    let sb: Stats = jobs
        .par_iter()
        .fold(Stats::new, |mut st, &(si, p, q)| {
            let base = &small_bytes[si];
            let origin = format!("mutation of stream {:?} at {p},{}", small[si], if q == usize::MAX { -1 } else { q as i64 });
            let mut buf = base.clone();
            for k in 0..MUT_VALUES {
                buf[p] = mut_value(base[p], k);
                if buf[p] == base[p] {
                    continue;
                }
                if q == usize::MAX {
                    begin_case(CaseId { a: 2, b: si as u64, c: (p * 8 + k) as u64 });
                    let o = call(ctx, 0, 0, &buf, &origin, &mut st);
                    st.outcome(o);
                    if buf.len() > 28 {
                        let o = call(ctx, 2, buf[15], &buf[28..], &origin, &mut st);
                        st.outcome(o);
                    }
                    end_case();
                    st.nontrivial(format!("b{si}/{p}/{k}").as_bytes());
                } else {
                    for k2 in 0..MUT_VALUES {
                        buf[q] = mut_value(base[q], k2);
                        if buf[q] == base[q] {
                            continue;
                        }
                        begin_case(CaseId { a: 3, b: si as u64, c: ((p * 8 + k) * 100_000 + q * 8 + k2) as u64 });
                        let o = call(ctx, 0, 0, &buf, &origin, &mut st);
                        st.outcome(o);
                        end_case();
                        st.nontrivial(format!("b{si}/{p}/{k}/{q}/{k2}").as_bytes());
                    }
                    buf[q] = base[q];
                }
            }
            st
        })
        .reduce(Stats::new, Stats::merge);

    // (c) field-directed extremes
    let names: Vec<[u8; 3]> = vec![*b"REF", *b"VEL", *b"SW ", *b"ZDR", *b"PHI", *b"RHO", *b"CFP", *b"VOL", *b"ELV", *b"RAD", *b"XXX", *b"ref", *b"SW\0", [0xFF, 0xFE, 0x80], *b"\0\0\0"];
    let counts: Vec<u16> = vec![0, 1, 2, 10, 11, 255, 65535];
    let gates: Vec<u16> = vec![0, 1, 1840, 65535];
    let wss: Vec<u8> = vec![0, 7, 8, 9, 16, 17, 255];
    let mut ext: Vec<Vec<u8>> = Vec::new();
    for &count in &counts {
        for np in [0usize, 1, 2, 11] {
            let exact = 32 + 4 * np as u32;
            let ptr_vals: Vec<u32> = vec![0, 4, 31, 32, exact, exact + 1, exact.saturating_sub(1), exact + 28, exact + 1000, 0x7FFF_FFFF, 0x8000_0000, 0xFFFF_FFFF];
            for &pv in &ptr_vals {
                for name in &names {
                    for &g in &gates {
                        for &ws in &wss {
                            if !thorough && (g as usize + ws as usize + pv as usize + count as usize) % 3 != 0 {
                                continue;
                            }
                            let present = [0usize, 4, g as usize][(count as usize + np) % 3].min(4000);
                            let mut ptrs = vec![pv; np];
                            if np >= 2 {
                                ptrs[1] = exact;
                            }
                            ext.push(t31_extreme(count, &ptrs, name, g, ws, present));
                        }
                    }
                }
            }
        }
    }
    // block type letter + name taken from every literal in the source under test (first bytes)
    {
        let mut seen = std::collections::BTreeSet::new();
        for lit in source_dictionary() {
            for start in 0..lit.len().min(3) {
                let n = [lit[start], *lit.get(start + 1).unwrap_or(&b' '), *lit.get(start + 2).unwrap_or(&b' ')];
                if !seen.insert(n) {
                    continue;
                }
                for (g, ws) in [(0u16, 8u8), (3, 8), (100, 16)] {
                    let exact = 32 + 4;
                    ext.push(t31_extreme(1, &[exact], &n, g, ws, g as usize * (ws as usize / 8)));
                    ext.push(t31_extreme(2, &[exact, exact], &n, g, ws, 4));
                }
            }
        }
    }
    let sc: Stats = ext
        .par_iter()
        .enumerate()
        .fold(Stats::new, |mut st, (i, body)| {
            begin_case(CaseId { a: 4, b: i as u64, c: 0 });
            let o = call(ctx, 3, 0, body, "type-31 field extremes", &mut st);
            st.outcome(o);
            let mut msg = MsgHeader::simple(31, 19000, 0).encode();
            msg.extend_from_slice(body);
            let o = call(ctx, 0, 0, &msg, "type-31 field extremes (stream)", &mut st);
            st.outcome(o);
            end_case();
            st.nontrivial(format!("c{i}").as_bytes());
            st
        })
        .reduce(Stats::new, Stats::merge);
    // VCP cut counts and clutter counts
    let mut sd = Stats::new();
    // message-header field extremes through the stream decoder: type code x size field x segment
    // count x segment number (under the variable-length marker 0xFFFF the last two read as a 32-bit
    // size of up to 4 GiB) x what follows the header; memory must stay bounded by the input
    {
        let small_body = {
            let (h, b) = simple_radial(1, 1, 19000, 5, &[3], 4, Some(212));
            t31_body(&h, &b, &Layout::default()).0
        };
        let tails: [Vec<u8>; 3] = [vec![], small_body, vec![0u8; FRAME - MSG_HEADER]];
        let mut i = 0u64;
        for typ in [31u8, 2, 5, 15, 13, 18, 0, 200] {
            for size in [0u16, 1, 8, 9, 0x04B8, 0x7FFF, 0xFFFE, 0xFFFF] {
                for count in [0u16, 1, 0x0100, 0x7FFF, 0xFFFF] {
                    for number in [0u16, 1, 0x7FFF, 0xFFFF] {
                        for tail in tails.iter() {
                            let mut mh = MsgHeader::simple(typ, 19000, 0);
                            mh.size = size;
                            mh.count = count;
                            mh.number = number;
                            let mut msg = mh.encode();
                            msg.extend_from_slice(tail);
                            begin_case(CaseId { a: 9, b: i, c: 0 });
                            let o = call(ctx, 0, 0, &msg, "message-header field extremes (stream)", &mut sd);
                            end_case();
                            sd.outcome(o);
                            sd.count("message_header_extremes", 1);
                            i += 1;
                        }
                    }
                }
            }
        }
    }
    // many pointers aliasing one (or two) large moment blocks that are fully present: peak memory
    // must stay linear in the input, not pointers x block size
    for &np in &[16usize, 255, 1024, 4096] {
        for &(g, ws) in &[(1840u16, 8u8), (65535, 8), (65535, 16)] {
            for two in [false, true] {
                if !thorough && np == 4096 && ws == 16 {
                    continue;
                }
                let exact = 32 + 4 * np as u32;
                let dl = g as usize * (ws as usize / 8);
                let mut ptrs = vec![exact; np];
                let second = exact + 28 + dl as u32;
                if two {
                    for (i, p) in ptrs.iter_mut().enumerate() {
                        if i % 2 == 1 {
                            *p = second;
                        }
                    }
                }
                let mut body = t31_extreme(np as u16, &ptrs, b"REF", g, ws, dl);
                if two {
                    let mut blk = W::new();
                    blk.u8(b'D').bytes(b"VEL").u32(0).u16(g).u16(2125).u16(250).u16(50).u16(16).u8(0).u8(ws).f32(2.0).f32(66.0);
                    body.extend_from_slice(&blk.0);
                    body.extend(std::iter::repeat(9u8).take(dl));
                }
                begin_case(CaseId { a: 9, b: np as u64, c: g as u64 });
                let o = call(ctx, 3, 0, &body, "many pointers aliasing a large block", &mut sd);
                sd.outcome(o);
                let mut msg = MsgHeader::simple(31, 19000, 0).encode();
                msg.extend_from_slice(&body);
                let o = call(ctx, 0, 0, &msg, "many pointers aliasing a large block (stream)", &mut sd);
                sd.outcome(o);
                end_case();
                sd.nontrivial(format!("alias{np}/{g}/{ws}/{two}").as_bytes());
                sd.count("aliasing_cases", 1);
            }
        }
    }
    for cuts in [0u16, 1, 51, 52, 53, 255, 256, 65535] {
        for present in [0usize, 1, 51, 60] {
            let cutv: Vec<VcpCut> = (0..present).map(|i| VcpCut::new(0x58, 0, 1, 1, i as u16)).collect();
            let b = vcp_body(&vcp_header_hw(212, cuts), &cutv);
            begin_case(CaseId { a: 5, b: cuts as u64, c: present as u64 });
            let o = call(ctx, 5, 0, &b, "vcp cut count extremes", &mut sd);
            sd.outcome(o);
            let mut fb = b.clone();
            fb.resize(FRAME - MSG_HEADER, 0);
            let o = call(ctx, 2, 5, &fb, "vcp cut count extremes (frame)", &mut sd);
            sd.outcome(o);
            end_case();
            sd.nontrivial(format!("v{cuts}/{present}").as_bytes());
        }
    }
    for segs in [0u16, 1, 5, 255, 256, 65535] {
        for zones in [0u16, 1, 25, 65535] {
            for present_az in [0usize, 1, 360] {
                let mut w = W::new();
                w.u16(19000).u16(5).u16(segs);
                for a in 0..present_az {
                    w.u16(zones);
                    for z in 0..(zones as usize).min(if a == 0 { 70000 } else { 2 }) {
                        w.u16((z % 4) as u16).u16(z as u16);
                    }
                }
                begin_case(CaseId { a: 6, b: segs as u64, c: zones as u64 });
                let o = call(ctx, 6, 0, &w.0, "clutter map count extremes", &mut sd);
                sd.outcome(o);
                end_case();
                sd.nontrivial(format!("k{segs}/{zones}/{present_az}").as_bytes());
            }
        }
    }

    // (d) exhaustive small scope at every entry point
    let mut se = Stats::new();
    all_entries(ctx, &[], "exhaustive small scope", &all_codes, &mut se);
    let s1: Stats = (0u32..256)
        .into_par_iter()
        .fold(Stats::new, |mut st, a| {
            begin_case(CaseId { a: 7, b: a as u64, c: 0 });
            all_entries(ctx, &[a as u8], "exhaustive small scope", &all_codes, &mut st);
            for b in 0u32..256 {
                all_entries(ctx, &[a as u8, b as u8], "exhaustive small scope", if a == 0 { &all_codes } else { &contents_codes }, &mut st);
                st.nontrivial(&[b'd', a as u8, b as u8]);
            }
            end_case();
            st
        })
        .reduce(Stats::new, Stats::merge);
    let alpha: [u8; 8] = [0x00, 0x01, 0x1F, 0xFF, b'R', b'V', b'O', b'L'];
    let maxlen = if thorough { 8 } else { 6 };
    let mut word_jobs: Vec<(usize, u64)> = Vec::new();
    for len in 3..=maxlen {
        let total = 8u64.pow(len as u32);
        let chunk = 4096u64;
        let mut s = 0;
        while s < total {
            word_jobs.push((len, s));
            s += chunk;
        }
    }
    let s2: Stats = word_jobs
        .par_iter()
        .fold(Stats::new, |mut st, &(len, start)| {
            let total = 8u64.pow(len as u32);
            let mut buf = vec![0u8; len];
            begin_case(CaseId { a: 8, b: len as u64, c: start });
            for idx in start..(start + 4096).min(total) {
                let mut x = idx;
                for b in buf.iter_mut() {
                    *b = alpha[(x % 8) as usize];
                    x /= 8;
                }
                all_entries(ctx, &buf, "exhaustive small scope (8-symbol alphabet)", &contents_codes, &mut st);
            }
            end_case();
            st.count("d_alphabet_strings", (start + 4096).min(total) - start);
            st.nontrivial(format!("w{len}/{start}").as_bytes());
            st
        })
        .reduce(Stats::new, Stats::merge);
    // history: entry points called back to back on one fresh thread with large / failing / tiny inputs
    let hin: Vec<(usize, u8, Vec<u8>)> = vec![
        (3, 0, t31_extreme(2, &[40, 40 + 28 + 65535], b"REF", 65535, 8, 65535)),
        (3, 0, t31_extreme(1, &[36], b"VEL", 4, 8, 2)),
        (0, 0, (0..3).flat_map(|i| message_bytes(9, i)).collect()),
        (0, 0, message_bytes(7, 0)[..100].to_vec()),
        (5, 0, vcp_body(&vcp_header_hw(212, 51), &(0..51).map(|i| VcpCut::new(0x58, 0, 1, 1, i)).collect::<Vec<_>>())),
        (5, 0, vcp_body(&vcp_header_hw(212, 60), &[])),
        (6, 0, vec![0, 1, 0, 2, 0, 1, 0xFF, 0xFF]),
        (2, 5, vec![0u8; 10]),
    ];
    let sh = history_check(
        ctx,
        "decode_entry_points",
        hin.len(),
        3,
        |i| {
            let mut st = Stats::new();
            let before = ctx.failure_count();
            let o = call(ctx, hin[i].0, hin[i].1, &hin[i].2, "history", &mut st);
            format!("{o}|{}", ctx.failure_count() - before)
        },
        |i| format!("{}({} bytes)", ENTRY_NAMES[hin[i].0], hin[i].2.len()),
    );
    let mut sdeep = Stats::new();
    deep_section(ctx, &mut sdeep, None);
    let mut stats = sa.merge(sb).merge(sc).merge(sd).merge(se).merge(s1).merge(s2).merge(sh).merge(sdeep);
    stats.sample(3, || json!({"entry": "decode_digital_radar_data", "origin": "field extremes", "bytes_hex": hex(&ext[ext.len() / 2][..64.min(ext[ext.len() / 2].len())])}));
    stats.sample(3, || json!({"entry": "decode_messages", "origin": "prefix", "stream": ["t31_basic", "status"], "cut": 1234}));
    let cov = stats.coverage(
        "(a) every prefix (quick: every 3rd inside long streams) of all valid streams of length <=2 over the C03 alphabet (thorough + a quarter of length 3), through decode_messages, decode_message_contents and the body decoder; (b) every single-byte mutation position x 8 values of 9 small streams and every pair of mutations on structural bytes (type code, block count, pointers, block names, gates, word size) i.e. all executions with <=2 deviations; (c) product of field extremes for type-31 (block count x pointer values x 15 names x gates x word sizes), VCP cut counts, clutter segment/zone counts, message-header extremes (8 type codes x 8 size fields x 5 segment counts x 4 segment numbers x 3 tails, incl. the variable-length marker with 32-bit sizes up to 4 GiB), and 16..4096 pointers aliasing one or two fully present large moment blocks (memory must stay linear); (d) all byte strings of length <=2 x all 256 type codes and all strings of length 3..=6 (thorough ..=8) over {00,01,1F,FF,R,V,O,L} at every entry point. Each call: no panic, reader fuel 64+8*len not exhausted, allocator peak <= 4 MiB + 64*len; radial()/into_radial() on every type-31 message that decoded",
        true,
        json!({"deviation_bound": 2, "alphabet": alpha, "max_len": maxlen, "not_covered": "uniformly random bytes (sampling); strings differing from a valid stream in >=3 unrelated places"}),
    );
    (
        "exploration",
        cov,
        vec![
            "counting global allocator in the harness measures per-call peak live bytes",
            "termination = fuel-counting reader (64 + 8*len operations) plus a 30 s per-batch watchdog",
            "overflow-checks on: arithmetic overflow counts as a panic",
        ],
    )
}

pub fn replay(ctx: &'static Ctx, case: &Value) {
    if case["op"].as_str() == Some("deep") {
        let mut st = Stats::new();
        deep_section(ctx, &mut st, case["kind"].as_u64().map(|k| k as usize));
        println!("replay C04 deep input kind {:?}: {} streams decoded", case["kind"], st.evaluations);
        return;
    }
    if case["op"].as_str() == Some("history") {
        let _ = run(ctx);
        return;
    }
    let entry = ENTRY_NAMES.iter().position(|e| Some(*e) == case["entry"].as_str()).unwrap_or(0);
    let bytes = unhex(case["bytes_hex"].as_str().unwrap_or(""));
    let mut st = Stats::new();
    let o = call(ctx, entry, case["type_code"].as_u64().unwrap_or(0) as u8, &bytes, "replay", &mut st);
    println!("replay C04 {} on {} bytes -> {o}", ENTRY_NAMES[entry], bytes.len());
}
