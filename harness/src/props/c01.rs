//! C01 — volume-to-scan conversion conserves every radial.
//! E3: elevation sequences x run lengths x every record partition x metadata insertion at every
//! position x moment subsets x gate counts x VOL placements; oracle = the encoder's own radial list.

use crate::core::*;
use crate::enc::*;
use crate::props::c03::message_bytes;
use crate::t31::*;
use nexrad_model::data::{MomentData, MomentValue, Radial};
use rayon::prelude::*;
use serde_json::{json, Value};

#[derive(Clone, Debug)]
pub struct Case {
    pub runs: Vec<(u8, u16)>,
    /// indices (in the final message list) at which a new record starts (0 is implicit)
    pub splits: Vec<usize>,
    /// (symbol of c03::message_bytes: 0 status, 1 vcp, 2 t15, 4 t18), position in message list
    pub meta: Option<(usize, usize)>,
    /// 0 none, 1 REF, 2 REF+VEL+SW, 3 all seven (PHI 16-bit)
    pub moments: u8,
    pub gates: u16,
    /// 0 first radial, 1 second radial only, 2 first (212) and a later radial (35), 3 none, 4 every radial
    pub vol: u8,
    pub level: u32,
    /// radial status per radial: 0 = consistent with the runs (elevation start on the first radial
    /// of a run, intermediate otherwise); 1 = every radial "intermediate"; 2 = every radial
    /// "elevation start"; 3 = codes 3,1,2,0,4,5 cycling with the position in the volume. The
    /// conversion groups by elevation number only, so modes 1..3 must give the same sweeps.
    pub status_mode: u8,
}

impl Case {
    pub fn json(&self) -> Value {
        json!({"runs": self.runs.iter().map(|r| [r.0 as u64, r.1 as u64]).collect::<Vec<_>>(), "splits": self.splits,
            "meta": self.meta.map(|m| [m.0, m.1]), "moments": self.moments, "gates": self.gates, "vol": self.vol, "level": self.level, "status_mode": self.status_mode})
    }
    pub fn from_json(v: &Value) -> Case {
        Case {
            runs: v["runs"].as_array().map(|a| a.iter().map(|r| (r[0].as_u64().unwrap_or(0) as u8, r[1].as_u64().unwrap_or(0) as u16)).collect()).unwrap_or_default(),
            splits: v["splits"].as_array().map(|a| a.iter().map(|x| x.as_u64().unwrap_or(0) as usize).collect()).unwrap_or_default(),
            meta: v["meta"].as_array().map(|a| (a[0].as_u64().unwrap_or(0) as usize, a[1].as_u64().unwrap_or(0) as usize)),
            moments: v["moments"].as_u64().unwrap_or(0) as u8,
            gates: v["gates"].as_u64().unwrap_or(0) as u16,
            vol: v["vol"].as_u64().unwrap_or(0) as u8,
            level: v["level"].as_u64().unwrap_or(9) as u32,
            status_mode: v["status_mode"].as_u64().unwrap_or(0) as u8,
        }
    }
    fn radial_count(&self) -> usize {
        self.runs.iter().map(|r| r.1 as usize).sum()
    }
}

/// moment kinds of radial `i`: ids 0..=3 are constant sets, 4 and 5 vary from radial to radial
/// (state carried from one message to the next would show), 6 = all seven with varying gate counts
fn moment_kinds(id: u8, i: usize) -> Vec<usize> {
    match id {
        0 => vec![],
        1 => vec![3],
        2 => vec![3, 4, 5],
        3 | 6 => vec![3, 4, 5, 6, 7, 8, 9],
        4 => match i % 3 {
            0 => vec![3, 4, 5, 6, 7, 8, 9],
            1 => vec![3],
            _ => vec![],
        },
        _ => {
            if i % 2 == 0 {
                vec![3, 4]
            } else {
                vec![3, 5, 7]
            }
        }
    }
}

fn gates_for(c: &Case, i: usize) -> u16 {
    if c.moments == 6 {
        [c.gates, 1, c.gates / 2 + 1, c.gates.saturating_add(1)][i % 4]
    } else {
        c.gates
    }
}

#[derive(Clone, Debug, PartialEq)]
struct ExpRadial {
    ts: i64,
    az: u16,
    elev: u8,
    moments: Vec<Option<Vec<u32>>>, // per kind 3..=9: raw gate values
}

fn raw_for(i: usize, kind: usize, g: usize, ws: usize) -> u32 {
    ((i * 31 + kind * 7 + g * 3) % if ws == 16 { 65536 } else { 256 }) as u32
}

const SCALE: f32 = 2.0;
const OFFSET: f32 = 66.0;

/// Builds the volume bytes and the expected radial list / VCP number.
fn build(c: &Case) -> (Vec<u8>, Vec<ExpRadial>, Option<u16>) {
    let mut msgs: Vec<Vec<u8>> = Vec::new();
    let mut exp = Vec::new();
    let mut first_vcp: Option<u16> = None;
    let total = c.radial_count();
    let later = (total / 2).max(1);
    let mut i = 0usize;
    for (elev, count) in &c.runs {
        for j in 0..*count {
            let mut h = T31Header::basic(*elev, j + 1, 19000, 1000 + i as u32);
            h.status = match c.status_mode {
                1 => 1,
                2 => 0,
                3 => [3u8, 1, 2, 0, 4, 5][i % 6],
                _ => if j == 0 { 0 } else { 1 },
            };
            let mut blocks = Vec::new();
            let vcp = match c.vol {
                0 => (i == 0).then_some(212u16),
                1 => (i == 1).then_some(212),
                2 => {
                    if i == 0 {
                        Some(212)
                    } else if i == later {
                        Some(35)
                    } else {
                        None
                    }
                }
                3 => None,
                _ => Some(215),
            };
            if let Some(v) = vcp {
                blocks.push(Block::vol(v, *elev));
                if first_vcp.is_none() {
                    first_vcp = Some(v);
                }
            }
            blocks.push(Block::elv(*elev));
            blocks.push(Block::rad(*elev));
            let mut em = vec![None; 7];
            let kinds = moment_kinds(c.moments, i);
            let gates = gates_for(c, i);
            for &k in &kinds {
                let ws = if k == 7 { 16 } else { 8 };
                let raws: Vec<u32> = (0..gates as usize).map(|g| raw_for(i, k, g, ws)).collect();
                let mut data = Vec::new();
                for r in &raws {
                    if ws == 16 {
                        data.extend_from_slice(&(*r as u16).to_be_bytes());
                    } else {
                        data.push(*r as u8);
                    }
                }
                blocks.push(Block::moment(KIND_NAMES[k], gates, ws as u8, SCALE, OFFSET, &data));
                em[k - 3] = Some(raws);
            }
            let mut mh = MsgHeader::simple(31, 19000, 1000 + i as u32);
            mh.seq = i as u16;
            msgs.push(t31_message(&mh, &h, &blocks, &Layout::default()));
            exp.push(ExpRadial { ts: ref_epoch_ms(19000, 1000 + i as i64), az: j + 1, elev: *elev, moments: em });
            i += 1;
        }
    }
    if let Some((sym, pos)) = c.meta {
        let p = pos.min(msgs.len());
        msgs.insert(p, message_bytes(sym, 900 + pos));
    }
    // partition into records
    let mut starts: Vec<usize> = vec![0];
    starts.extend(c.splits.iter().copied().filter(|s| *s > 0 && *s < msgs.len()));
    starts.sort();
    starts.dedup();
    let mut records = Vec::new();
    for (ri, s) in starts.iter().enumerate() {
        let e = starts.get(ri + 1).copied().unwrap_or(msgs.len());
        let payload: Vec<u8> = msgs[*s..e].concat();
        records.push(record_bz(&payload, c.level.max(1), ri % 2 == 1));
        if c.level == 0 {
            // level 0 marks "interleave empty records": a record whose payload is empty
            records.push(record_bz(&[], 9, ri % 2 == 0));
        }
    }
    if msgs.is_empty() {
        records.clear();
    }
    (volume(&VolHeader::basic(), &records), exp, first_vcp)
}

pub fn volume_bytes(c: &Case) -> Vec<u8> {
    build(c).0
}

fn radial_moment(r: &Radial, k: usize) -> Option<&MomentData> {
    match k {
        3 => r.reflectivity(),
        4 => r.velocity(),
        5 => r.spectrum_width(),
        6 => r.differential_reflectivity(),
        7 => r.differential_phase(),
        8 => r.correlation_coefficient(),
        _ => r.specific_differential_phase(),
    }
}

fn value_matches(v: &MomentValue, raw: u32) -> bool {
    match (raw, v) {
        (0, MomentValue::BelowThreshold) => true,
        (1, MomentValue::RangeFolded) => true,
        (r, MomentValue::Value(x)) if r >= 2 => x.to_bits() == ((r as f32 - OFFSET) / SCALE).to_bits(),
        _ => false,
    }
}

pub fn check_case(ctx: &Ctx, c: &Case) -> &'static str {
    let (bytes, exp, vcp) = build(c);
    let wit = || c.json();
    let file = nexrad_data::volume::File::new(bytes);
    let r = guarded(|| file.scan().map_err(|e| format!("{:?}", e)));
    let scan = match r {
        Caught::Panic(p) => {
            ctx.fail(&format!("scan:panic:{}", panic_class(&p)), || format!("{:?}: {p}", c), wit);
            return "panic";
        }
        Caught::Ret(Err(e)) => {
            if vcp.is_none() {
                return "err_no_vol";
            }
            ctx.fail("scan:well_formed_volume_rejected", || format!("{:?}: {e}", c), wit);
            return "rejected";
        }
        Caught::Ret(Ok(s)) => s,
    };
    // without any volume block the property does not say what the pattern number must be
    if let Some(vcp) = vcp {
    if scan.coverage_pattern_number() != vcp {
        ctx.fail(
            &format!("scan:coverage_pattern_not_first_volume_block:vol_placement={}", c.vol),
            || format!("{:?}: got {} expected {vcp}", c, scan.coverage_pattern_number()),
            wit,
        );
    }
    }
    // concatenation
    let got: Vec<&Radial> = scan.sweeps().iter().flat_map(|s| s.radials().iter()).collect();
    let got_ids: Vec<i64> = got.iter().map(|r| r.collection_timestamp()).collect();
    let exp_ids: Vec<i64> = exp.iter().map(|r| r.ts).collect();
    if got_ids != exp_ids {
        let mut g2 = got_ids.clone();
        g2.sort();
        g2.dedup();
        let sig = if got_ids.len() < exp_ids.len() {
            // which radials are missing?
            let last_run_start = exp.len() - c.runs.last().map(|r| r.1 as usize).unwrap_or(0);
            if got_ids[..] == exp_ids[..last_run_start.min(exp_ids.len())] {
                "scan:final_sweep_missing".to_string()
            } else {
                format!("scan:radials_lost:meta={}", c.meta.map(|m| m.0 as i64).unwrap_or(-1))
            }
        } else if g2.len() < got_ids.len() {
            "scan:radials_duplicated".to_string()
        } else if got_ids.len() > exp_ids.len() {
            "scan:extra_radials_from_metadata".to_string()
        } else {
            "scan:radials_reordered".to_string()
        };
        ctx.fail(&sig, || format!("{:?}: got {} radials {:?}.., expected {} {:?}..", c, got_ids.len(), &got_ids[..got_ids.len().min(8)], exp_ids.len(), &exp_ids[..exp_ids.len().min(8)]), wit);
        return "concat_mismatch";
    }
    // unaltered
    for (g, e) in got.iter().zip(exp.iter()) {
        if g.azimuth_number() != e.az || g.elevation_number() != e.elev {
            ctx.fail("scan:radial_altered:header", || format!("{:?}: radial ts {}", c, e.ts), wit);
            return "altered";
        }
        for k in 3..10 {
            let gm = radial_moment(g, k);
            match (&e.moments[k - 3], gm) {
                (None, None) => {}
                (Some(raws), Some(md)) => {
                    let vals = md.values();
                    if vals.len() != raws.len() || !vals.iter().zip(raws.iter()).all(|(v, r)| value_matches(v, *r)) {
                        ctx.fail(&format!("scan:radial_altered:moment_values:{}", kind_label(k)), || format!("{:?}: radial ts {} {}", c, e.ts, kind_label(k)), wit);
                        return "altered";
                    }
                }
                _ => {
                    ctx.fail(&format!("scan:radial_altered:moment_presence:{}", kind_label(k)), || format!("{:?}: radial ts {}", c, e.ts), wit);
                    return "altered";
                }
            }
        }
    }
    // grouping: maximal runs of equal elevation number, labelled
    let mut exp_groups: Vec<(u8, usize)> = Vec::new();
    for e in &exp {
        match exp_groups.last_mut() {
            Some((l, n)) if *l == e.elev => *n += 1,
            _ => exp_groups.push((e.elev, 1)),
        }
    }
    let got_groups: Vec<(u8, usize)> = scan.sweeps().iter().map(|s| (s.elevation_number(), s.radials().len())).collect();
    if got_groups != exp_groups {
        ctx.fail("scan:sweeps_not_maximal_equal_elevation_runs", || format!("{:?}: got {:?} expected {:?}", c, got_groups, exp_groups), wit);
        return "grouping_mismatch";
    }
    "ok"
}

fn runs_from_word(w: &[u64], alphabet: &[u8], lens: &[u16]) -> Vec<(u8, u16)> {
    // adjacent equal letters form one run (the oracle works on elevation numbers, not on runs)
    w.iter().enumerate().map(|(i, x)| (alphabet[*x as usize], lens[i % lens.len()])).collect()
}

pub fn cases(thorough: bool) -> Vec<Case> {
    let mut out = Vec::new();
    let base = Case { runs: vec![], splits: vec![], meta: None, moments: 1, gates: 4, vol: 0, level: 9, status_mode: 0 };
    // A. elevation words x run-length patterns x every record partition
    let maxlen = if thorough { 7 } else { 5 };
    let lens_patterns: Vec<Vec<u16>> = if thorough { vec![vec![1], vec![2], vec![1, 2, 3], vec![3, 1]] } else { vec![vec![1], vec![2, 1]] };
    for len in 1..=maxlen {
        for w in words(3, len) {
            for lp in &lens_patterns {
                let runs = runs_from_word(&w, &[1, 2, 3], lp);
                let m: usize = runs.iter().map(|r| r.1 as usize).sum();
                if m <= 8 {
                    let nsplit = 1usize << (m - 1);
                    let step = if thorough || nsplit <= 32 { 1 } else { 3 };
                    let mut mask = 0;
                    while mask < nsplit {
                        let splits: Vec<usize> = (1..m).filter(|b| mask & (1 << (b - 1)) != 0).collect();
                        out.push(Case { runs: runs.clone(), splits, ..base.clone() });
                        mask += step;
                    }
                } else {
                    for strat in 0..4 {
                        let splits: Vec<usize> = match strat {
                            0 => vec![],
                            1 => (1..m).collect(),
                            2 => {
                                let mut acc = 0;
                                runs.iter().map(|r| { acc += r.1 as usize; acc }).collect()
                            }
                            _ => {
                                let mut acc = 0;
                                runs.iter().map(|r| { let s = acc + (r.1 as usize).div_ceil(2); acc += r.1 as usize; s }).collect()
                            }
                        };
                        out.push(Case { runs: runs.clone(), splits, ..base.clone() });
                    }
                }
            }
        }
    }
    // special elevation sequences
    for runs in [vec![(255u8, 1u16)], vec![(0, 2)], vec![(1, 2), (2, 2), (1, 2), (3, 2)], vec![(7, 1)], vec![(1, 3), (1, 2)]] {
        for splits in [vec![], vec![1], vec![2, 4, 6]] {
            out.push(Case { runs: runs.clone(), splits, ..base.clone() });
        }
    }
    out.push(Case { runs: (1..=255u8).map(|e| (e, 1)).collect(), splits: (0..255).step_by(20).collect(), ..base.clone() });
    // B. metadata frame of every kind at every position, three partitions
    let sails = vec![(1u8, 2u16), (2, 2), (1, 2), (3, 2)];
    for sym in [0usize, 1, 2, 4] {
        for pos in 0..=8 {
            for splits in [vec![], (1..9).collect::<Vec<_>>(), vec![pos, pos + 1]] {
                out.push(Case { runs: sails.clone(), splits, meta: Some((sym, pos)), ..base.clone() });
            }
        }
    }
    // metadata only / nothing at all
    out.push(Case { runs: vec![], splits: vec![], meta: Some((0, 0)), ..base.clone() });
    out.push(Case { runs: vec![], splits: vec![], meta: None, ..base.clone() });
    // C. moment subsets x gates x VOL placements
    for moments in 0..4u8 {
        for gates in [0u16, 1, 4, 1840] {
            for vol in 0..5u8 {
                for runs in [vec![(1u8, 3u16), (2, 2)], vec![(4, 1)]] {
                    if gates == 1840 && !thorough && runs.len() == 1 && moments < 3 {
                        continue;
                    }
                    out.push(Case { runs, splits: vec![2], meta: Some((1, 0)), moments, gates, vol, level: if gates == 1 { 1 } else { 9 }, status_mode: 0 });
                }
            }
        }
    }
    // C2. per-radial variation (moment sets / gate counts change from one radial to the next),
    // gate counts around 256, long runs, many records, empty records in between
    for moments in [4u8, 5, 6] {
        for gates in [3u16, 255, 256, 257, 1000] {
            if !thorough && gates == 1000 && moments != 6 {
                continue;
            }
            for runs in [vec![(1u8, 4u16), (2, 3), (1, 2)], vec![(3, 7)]] {
                let m: usize = runs.iter().map(|r| r.1 as usize).sum();
                for splits in [vec![], (1..m).collect::<Vec<_>>(), vec![3, 5]] {
                    out.push(Case { runs: runs.clone(), splits, meta: Some((0, 2)), moments, gates, vol: 0, level: 9, status_mode: 0 });
                }
            }
        }
    }
    for gates in [255u16, 256, 257, 258, 511, 512, 513, 1024] {
        out.push(Case { runs: vec![(1, 2), (2, 1)], splits: vec![1], meta: None, moments: 3, gates, vol: 0, level: 9, status_mode: 0 });
    }
    for (n, per_record) in [(300u16, 1usize), (257, 256), (720, 100), (65u16, 64)] {
        // long runs: more than 255/256 radials in one sweep, many single-message records
        let runs = vec![(1u8, n), (2, 2), (1, n)];
        let total = 2 * n as usize + 2;
        out.push(Case { runs, splits: (1..total).filter(|k| k % per_record == 0).collect(), meta: Some((1, 0)), moments: 1, gates: 2, vol: 0, level: 9, status_mode: 0 });
    }
    for runs in [vec![(1u8, 2u16), (2, 2)], vec![(5, 1)], vec![(1, 3), (2, 3), (1, 3), (3, 3)]] {
        let m: usize = runs.iter().map(|r| r.1 as usize).sum();
        // level 0 = an empty record after every record
        out.push(Case { runs: runs.clone(), splits: (1..m).collect(), meta: None, moments: 2, gates: 4, vol: 1, level: 0, status_mode: 0 });
        out.push(Case { runs, splits: vec![], meta: Some((0, 0)), moments: 1, gates: 4, vol: 0, level: 0, status_mode: 0 });
    }
    // C3. one record whose decompressed size crosses 64 KiB, 1 MiB, 4 MiB, 8 MiB (thorough: 16, 32 MiB)
    let big: Vec<u16> = if thorough { vec![5, 80, 300, 600, 1200, 2400] } else { vec![5, 80, 300, 600] };
    for n in big {
        out.push(Case { runs: vec![(1, n / 2), (2, n - n / 2)], splits: vec![], meta: None, moments: 3, gates: 1840, vol: 0, level: 1, status_mode: 0 });
    }
    // D. realistic structured volumes: 720 radials per elevation, 120 radials per record
    let big = vec![(1u8, 720u16), (2, 720), (1, 720), (3, 360)];
    out.push(Case { runs: big.clone(), splits: (1..22).map(|k| k * 120).collect(), meta: Some((1, 0)), moments: 2, gates: if thorough { 460 } else { 40 }, vol: 4, level: 9, status_mode: 0 });
    if thorough {
        out.push(Case { runs: vec![(1, 720)], splits: vec![], meta: None, moments: 3, gates: 1840, vol: 0, level: 9, status_mode: 0 });
    }
    // D. radial status independent of the elevation number: every case of at most 8 radials with
    // at least two elevation runs, again under status modes 1..=3
    let again: Vec<Case> = out
        .iter()
        .filter(|c| c.meta.is_none() && c.runs.len() >= 2 && c.radial_count() <= 8 && c.moments == 1 && c.splits.len() <= 2)
        .flat_map(|c| (1..=3u8).map(move |m| Case { status_mode: m, ..c.clone() }))
        .collect();
    out.extend(again);
    out
}

pub fn run(ctx: &'static Ctx) -> (&'static str, Value, Vec<&'static str>) {
    let cs = cases(ctx.tier.thorough());
    let stats: Stats = cs
        .par_iter()
        .enumerate()
        .fold(Stats::new, |mut st, (i, c)| {
            let o = check_case(ctx, c);
            st.eval();
            st.outcome(o);
            st.dim("elevation_runs", c.runs.len().min(9));
            st.dim("records", c.splits.len() + 1);
            st.dim("metadata", c.meta.map(|m| ["status", "vcp", "t15", "", "t18"][m.0]).unwrap_or("none"));
            st.dim("moments", c.moments);
            st.dim("gates", c.gates);
            st.dim("vol_placement", c.vol);
            if c.runs.len() >= 2 && !c.splits.is_empty() {
                st.nontrivial(format!("{:?}", c).as_bytes());
            }
            if i % 1009 == 17 {
                st.sample(5, || json!({"case": c.json(), "outcome": o}));
            }
            st
        })
        .reduce(Stats::new, Stats::merge);
    // history: scan() of different volumes back to back on one fresh thread (large, failing,
    // empty, tiny) must give each volume's history-free result
    let hv: Vec<Case> = vec![
        Case { runs: vec![(1, 40), (2, 45)], splits: vec![], meta: None, moments: 3, gates: 1840, vol: 0, level: 1, status_mode: 0 },
        Case { runs: vec![(1, 2), (2, 1)], splits: vec![1], meta: Some((0, 1)), moments: 1, gates: 4, vol: 0, level: 9, status_mode: 0 },
        Case { runs: vec![(4, 3)], splits: vec![], meta: None, moments: 2, gates: 257, vol: 3, level: 9, status_mode: 0 },
        Case { runs: vec![], splits: vec![], meta: None, moments: 0, gates: 0, vol: 0, level: 9, status_mode: 0 },
        Case { runs: vec![(1, 2), (2, 2), (1, 2), (3, 2)], splits: vec![2, 4, 6], meta: Some((1, 0)), moments: 4, gates: 300, vol: 2, level: 9, status_mode: 0 },
    ];
    let hbytes: Vec<Vec<u8>> = hv.iter().map(|c| build(c).0).collect();
    let sh = history_check(
        ctx,
        "file_scan",
        hv.len(),
        3,
        |i| {
            let f = nexrad_data::volume::File::new(hbytes[i].clone());
            let r = guarded(|| {
                f.scan()
                    .map(|s| {
                        let mut h: u64 = 0xcbf29ce484222325;
                        for w in s.sweeps() {
                            for r in w.radials() {
                                for m in [r.reflectivity(), r.velocity(), r.spectrum_width(), r.differential_reflectivity(), r.differential_phase(), r.correlation_coefficient(), r.specific_differential_phase()] {
                                    h = h.wrapping_mul(0x100000001b3) ^ fnv64(format!("{:?}", m.map(|x| x.values())).as_bytes());
                                }
                                h = h.wrapping_mul(0x100000001b3) ^ r.collection_timestamp() as u64;
                            }
                        }
                        (s.coverage_pattern_number(), s.sweeps().iter().map(|w| (w.elevation_number(), w.radials().len())).collect::<Vec<_>>(), h)
                    })
                    .map_err(|e| format!("{:?}", e))
            });
            format!("{:?}", r)
        },
        |i| format!("volume#{i}"),
    );
    let stats = stats.merge(sh);
    let cov = stats.coverage(
        "volumes built by the reference encoder: every elevation word over {1,2,3} up to length 5 (thorough 7) x run-length patterns x EVERY partition of the message stream into bzip2 records (streams <= 8 messages; 4 strategies above), special sequences (255, 0, SAILS 1,2,1,3, 1..=255 ascending), a status/VCP/type-15/type-18 frame inserted at every position, moment subsets {none, REF, REF+VEL+SW, all 7 with 16-bit PHI} x gates {0,1,4,1840} x 5 VOL placements, 2,520-radial realistic volume. Oracle = encoder's radial list (identity by unique timestamp, values via reference conversion). non-trivial = >=2 elevation runs and >=2 records",
        true,
        json!({"cases": cs.len()}),
    );
    (
        "exploration",
        cov,
        vec!["bzip2 encoder trusted (framing is what is checked)", "well-formed volumes only (every record compressed)", "reference layouts per DESIGN Appendix A"],
    )
}

pub fn replay(ctx: &'static Ctx, case: &Value) {
    if case["op"].as_str() == Some("history") {
        let _ = run(ctx);
        return;
    }
    let c = Case::from_json(case);
    let o = check_case(ctx, &c);
    println!("replay C01 {:?} -> {o}", c);
}
