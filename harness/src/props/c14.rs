//! C14 — message summaries partition the message list and count it faithfully.
//! E2: stateright search over message words; the invariant runs the real `summarize::messages`
//! on the word of every state and compares with a reference grouper.

use crate::core::*;
use crate::enc::*;
use crate::t31::*;
use chrono::{DateTime, Utc};
use nexrad_decode::messages as dm;
use nexrad_decode::summarize;
use serde_json::{json, Value};
use stateright::{Checker, Model, Property};
use std::collections::{BTreeMap, BTreeSet};
use std::sync::atomic::{AtomicU64, Ordering};
use std::sync::{Arc, Mutex};

pub const SYMS: [&str; 8] = ["R1", "R1v", "R2", "S", "V", "O3", "O18", "R3n"];
const MAXPOS: usize = 16;

/// Symbol -> (elevation, moment kinds, vol vcp) for radial symbols
fn radial_spec(sym: usize) -> Option<(u8, Vec<usize>, Option<u16>)> {
    match sym {
        0 => Some((1, vec![3], None)),
        1 => Some((1, vec![3, 4], Some(212))),
        2 => Some((2, vec![3, 4, 5, 6, 7, 8, 9], Some(35))),
        7 => Some((3, vec![], None)),
        _ => None,
    }
}

thread_local! {
    /// How the message headers describe segmentation: 0 = every message is "segment 1 of 1";
    /// 1 = message at position p is "segment (p mod 3) + 1 of 3"; 2 = "segment p + 2 of 65535".
    /// Every entry of the decoded list is one message whatever its header says about segments.
    static SEGMENT_MODE: std::cell::Cell<u8> = const { std::cell::Cell::new(0) };
}

/// Radial header fields the summary is not a function of (the property names type, elevation
/// number, azimuth, times and data blocks only): (name, in-domain values). Field 0 is the radial
/// status, whose default in every other phase is 1 (intermediate radial).
pub const FREE_FIELDS: [(&str, &[u32]); 5] = [
    ("radial_status", &[0, 1, 2, 3, 4, 5]),
    ("spot_blanking", &[0, 1, 2, 4]),
    ("azimuth_spacing", &[1, 2]),
    ("azimuth_indexing", &[0, 1, 50, 100]),
    ("cut_sector", &[0, 1, 2, 3]),
];

fn build_message(sym: usize, pos: usize) -> dm::Message {
    build_message_with(sym, pos, None)
}

fn build_message_with(sym: usize, pos: usize, ov: Option<(u8, u32)>) -> dm::Message {
    let time = 1000 * (pos as u32 + 1);
    let mut mh = MsgHeader::simple(0, 19000, time);
    mh.seq = pos as u16;
    match SEGMENT_MODE.with(|m| m.get()) {
        1 => {
            mh.count = 3;
            mh.number = (pos % 3) as u16 + 1;
        }
        2 => {
            mh.count = 65535;
            mh.number = pos as u16 + 2;
        }
        _ => {}
    }
    let bytes = match sym {
        3 => {
            mh.typ = 2;
            fixed_frame(&mh, &rda_body(&rda_in_domain()))
        }
        4 => {
            mh.typ = 5;
            let cuts = vec![VcpCut::new(0x0058, 0, 1, 1, 1), VcpCut::new(0x00B0, 2, 4, 0, 2)];
            fixed_frame(&mh, &vcp_body(&vcp_header_hw(212, 2), &cuts))
        }
        5 | 6 => {
            mh.typ = if sym == 5 { 3 } else { 18 };
            fixed_frame(&mh, &[0u8; 16])
        }
        _ => {
            let (elev, kinds, vcp) = radial_spec(sym).expect("radial symbol");
            let (mut h, blocks) = simple_radial(elev, pos as u16 + 1, 19000, time + 7, &kinds, 2, vcp);
            h.az_angle = (pos as f32 * 0.5 + 0.25).to_bits();
            h.elev_angle = (elev as f32 * 0.5 + pos as f32 * 0.001).to_bits();
            match ov {
                Some((0, v)) => h.status = v as u8,
                Some((1, v)) => h.spot_blanking = v as u8,
                Some((2, v)) => h.spacing = v as u8,
                Some((3, v)) => h.az_indexing = v as u8,
                Some((4, v)) => h.cut_sector = v as u8,
                _ => {}
            }
            t31_message(&mh, &h, &blocks, &Layout::default())
        }
    };
    let v = dm::decode_messages(&mut std::io::Cursor::new(bytes)).expect("reference message decodes");
    assert_eq!(v.len(), 1);
    v.into_iter().next().expect("one message")
}

pub struct Cache {
    msgs: Vec<Vec<dm::Message>>, // [sym][pos % MAXPOS]
}

impl Cache {
    pub fn new() -> Self {
        Cache { msgs: (0..SYMS.len()).map(|s| (0..MAXPOS).map(|p| build_message(s, p)).collect()).collect() }
    }
    fn list(&self, word: &[u8]) -> Vec<dm::Message> {
        if word.len() <= MAXPOS {
            word.iter().enumerate().map(|(p, s)| self.msgs[*s as usize][p].clone()).collect()
        } else {
            word.iter().enumerate().map(|(p, s)| build_message(*s as usize, p)).collect()
        }
    }
}

#[derive(Clone, Debug, PartialEq)]
enum Key {
    Radial(u8),
    Status,
    Vcp,
    Other(u8),
}

fn key(sym: u8) -> Key {
    match sym {
        3 => Key::Status,
        4 => Key::Vcp,
        5 => Key::Other(3),
        6 => Key::Other(18),
        s => Key::Radial(radial_spec(s as usize).map(|r| r.0).unwrap_or(0)),
    }
}

#[derive(Clone, Debug, PartialEq)]
struct RefGroup {
    start: usize,
    end: usize,
    key: Key,
    continued: bool,
    data: BTreeMap<&'static str, usize>,
}

const DATA_NAMES: [&str; 7] = ["Reflectivity", "Velocity", "Spectrum Width", "Differential Reflectivity", "Differential Phase", "Correlation Coefficient", "Specific Differential Phase"];

fn ref_groups(word: &[u8]) -> Vec<RefGroup> {
    let mut out: Vec<RefGroup> = Vec::new();
    for (i, s) in word.iter().enumerate() {
        let k = key(*s);
        let extend = match (out.last(), &k) {
            (Some(g), Key::Radial(_)) | (Some(g), Key::Other(_)) => g.key == k,
            _ => false,
        };
        if extend {
            if let Some(g) = out.last_mut() {
                g.end = i;
            }
        } else {
            let continued = matches!(k, Key::Radial(_)) && out.iter().any(|g| g.key == k);
            out.push(RefGroup { start: i, end: i, key: k.clone(), continued, data: BTreeMap::new() });
        }
        if let Some((_, kinds, _)) = radial_spec(*s as usize) {
            if let Some(g) = out.last_mut() {
                for kk in kinds {
                    *g.data.entry(DATA_NAMES[kk - 3]).or_insert(0) += 1;
                }
            }
        }
    }
    out
}

fn hdr_time(m: &dm::Message) -> Option<DateTime<Utc>> {
    m.header().date_time()
}

/// Returns an outcome label after checking all invariants for `word`.
pub fn check_word(ctx: &Ctx, cache: &Cache, word: &[u8]) -> &'static str {
    check_list(ctx, cache.list(word), word, &[])
}

/// `overrides` = (position, free field index, value) applied to the radial messages of `msgs`
/// (already applied by the caller; recorded in the witness so that a replay rebuilds the list).
pub fn check_list(ctx: &Ctx, msgs: Vec<dm::Message>, word: &[u8], overrides: &[(usize, u8, u32)]) -> &'static str {
    let seg_mode = SEGMENT_MODE.with(|m| m.get());
    let wit = || json!({"op": "word", "word": word, "segment_mode": seg_mode, "overrides": overrides.iter().map(|o| json!([o.0, o.1, o.2])).collect::<Vec<_>>()});
    let n = msgs.len();
    let m2 = msgs.clone();
    let sum = match guarded(move || summarize::messages(&m2)) {
        Caught::Ret(s) => s,
        Caught::Panic(p) => {
            ctx.fail(&format!("summary:panic:{}", panic_class(&p)), || format!("{:?}: {p}", word), wit);
            return "panic";
        }
    };
    let groups = &sum.message_groups;
    let exp = ref_groups(word);
    // tiling
    let mut next = 0usize;
    for (gi, g) in groups.iter().enumerate() {
        if g.start_message_index != next || g.end_message_index < g.start_message_index {
            let sig = if g.start_message_index > next { "summary:gap_in_index_range" } else { "summary:overlap_in_index_range" };
            ctx.fail(sig, || format!("{:?}: group {gi} spans {}..={} but next expected index is {next}", word, g.start_message_index, g.end_message_index), wit);
            return "tiling";
        }
        if g.message_count != g.end_message_index - g.start_message_index + 1 {
            ctx.fail("summary:count_ne_span", || format!("{:?}: group {gi} count {} span {}..={}", word, g.message_count, g.start_message_index, g.end_message_index), wit);
            return "count";
        }
        next = g.end_message_index + 1;
    }
    if next != n {
        ctx.fail(
            if next < n { "summary:trailing_messages_not_covered" } else { "summary:groups_exceed_list" },
            || format!("{:?}: groups cover 0..{next} of {n} messages", word),
            wit,
        );
        return "tiling";
    }
    // grouping rule
    let got_spans: Vec<(usize, usize)> = groups.iter().map(|g| (g.start_message_index, g.end_message_index)).collect();
    let exp_spans: Vec<(usize, usize)> = exp.iter().map(|g| (g.start, g.end)).collect();
    if got_spans != exp_spans {
        let sig = if got_spans.len() < exp_spans.len() { "summary:groups_merged_beyond_rule" } else { "summary:groups_not_maximal" };
        ctx.fail(sig, || format!("{:?}: spans {:?} expected {:?}", word, got_spans, exp_spans), wit);
        return "grouping";
    }
    for (g, e) in groups.iter().zip(exp.iter()) {
        let first = &msgs[e.start];
        let last = &msgs[e.end];
        if g.message_type != first.header().message_type() {
            ctx.fail("summary:group_message_type", || format!("{:?}: group at {}", word, e.start), wit);
        }
        match &e.key {
            Key::Radial(elev) => {
                if g.elevation_number != Some(*elev) {
                    ctx.fail("summary:group_elevation_number", || format!("{:?}: group at {} has {:?}", word, e.start, g.elevation_number), wit);
                }
                if g.is_continued != e.continued {
                    ctx.fail(
                        if e.continued { "summary:continuation_flag_missing" } else { "summary:continuation_flag_spurious" },
                        || format!("{:?}: group at {} is_continued={} expected {}", word, e.start, g.is_continued, e.continued),
                        wit,
                    );
                }
                let got: BTreeMap<String, usize> = g.data_types.clone().unwrap_or_default().into_iter().filter(|(_, v)| *v > 0).collect();
                let want: BTreeMap<String, usize> = e.data.iter().map(|(k, v)| (k.to_string(), *v)).collect();
                if got != want {
                    ctx.fail("summary:data_type_counts", || format!("{:?}: group at {} counts {:?} expected {:?}", word, e.start, got, want), wit);
                }
                let (fa, la) = match (first.contents(), last.contents()) {
                    (dm::MessageContents::DigitalRadarData(a), dm::MessageContents::DigitalRadarData(b)) => (a.header.azimuth_angle, b.header.azimuth_angle),
                    _ => (f32::NAN, f32::NAN),
                };
                if g.start_azimuth.map(f32::to_bits) != Some(fa.to_bits()) {
                    ctx.fail("summary:first_azimuth", || format!("{:?}: group at {}", word, e.start), wit);
                }
                if g.end_azimuth.map(f32::to_bits) != Some(la.to_bits()) {
                    ctx.fail("summary:last_azimuth", || format!("{:?}: group at {}..{}: {:?} expected {la}", word, e.start, e.end, g.end_azimuth), wit);
                }
            }
            _ => {
                if g.is_continued {
                    ctx.fail("summary:continuation_flag_on_non_radial", || format!("{:?}: group at {}", word, e.start), wit);
                }
            }
        }
        if g.start_time != hdr_time(first) {
            ctx.fail("summary:first_time", || format!("{:?}: group at {}", word, e.start), wit);
        }
        if g.end_time != hdr_time(last) {
            ctx.fail("summary:last_time", || format!("{:?}: group at {}..{}", word, e.start, e.end), wit);
        }
        if e.key == Key::Status && g.rda_status_info.is_none() {
            ctx.fail("summary:status_info_missing", || format!("{:?}", word), wit);
        }
        if e.key == Key::Vcp && g.vcp_info.as_ref().map(|v| v.pattern_number) != Some(212) {
            ctx.fail("summary:vcp_info", || format!("{:?}", word), wit);
        }
    }
    // collection-time range over timestamped radial and status messages
    let times: Vec<DateTime<Utc>> = word
        .iter()
        .enumerate()
        .filter(|(_, s)| matches!(key(**s), Key::Radial(_) | Key::Status))
        .filter_map(|(i, _)| hdr_time(&msgs[i]))
        .collect();
    let (emin, emax) = (times.iter().min().copied(), times.iter().max().copied());
    if sum.earliest_collection_time != emin {
        ctx.fail("summary:earliest_collection_time", || format!("{:?}: {:?} expected {:?}", word, sum.earliest_collection_time, emin), wit);
    }
    if sum.latest_collection_time != emax {
        ctx.fail("summary:latest_collection_time", || format!("{:?}: {:?} expected {:?}", word, sum.latest_collection_time, emax), wit);
    }
    // VCP set
    let got_vcps: BTreeSet<String> = sum.volume_coverage_patterns.iter().map(|v| format!("{:?}", v)).collect();
    let want_vcps: BTreeSet<String> = word
        .iter()
        .filter_map(|s| radial_spec(*s as usize).and_then(|r| r.2))
        .map(|n| format!("VCP{n}"))
        .collect();
    if got_vcps != want_vcps {
        ctx.fail("summary:vcp_set", || format!("{:?}: {:?} expected {:?}", word, got_vcps, want_vcps), wit);
    }
    // differential from non-initial states: a forced break splits the summary
    for k in 1..word.len() {
        let (ka, kb) = (key(word[k - 1]), key(word[k]));
        let forced = ka != kb || matches!(ka, Key::Status | Key::Vcp);
        if forced && word.len() <= 8 {
            let tail = msgs[k..].to_vec();
            if let Caught::Ret(ts) = guarded(move || summarize::messages(&tail)) {
                let a: Vec<(usize, usize, usize)> = groups.iter().filter(|g| g.start_message_index >= k).map(|g| (g.start_message_index - k, g.end_message_index - k, g.message_count)).collect();
                let b: Vec<(usize, usize, usize)> = ts.message_groups.iter().map(|g| (g.start_message_index, g.end_message_index, g.message_count)).collect();
                if a != b {
                    ctx.fail("summary:split_differential", || format!("{:?} split at {k}: {:?} vs {:?}", word, a, b), wit);
                }
            }
        }
    }
    "ok"
}

#[derive(Clone)]
struct SumModel {
    alphabet: Vec<u8>,
    depth: usize,
    ctx: &'static Ctx,
    cache: Arc<Cache>,
    transitions: Arc<AtomicU64>,
    stats: Arc<Mutex<Stats>>,
}

impl Model for SumModel {
    type State = Vec<u8>;
    type Action = u8;
    fn init_states(&self) -> Vec<Self::State> {
        vec![vec![]]
    }
    fn actions(&self, s: &Self::State, a: &mut Vec<u8>) {
        if s.len() < self.depth {
            a.extend(self.alphabet.iter().copied());
        }
    }
    fn next_state(&self, s: &Self::State, a: u8) -> Option<Self::State> {
        self.transitions.fetch_add(1, Ordering::Relaxed);
        let mut n = s.clone();
        n.push(a);
        Some(n)
    }
    fn properties(&self) -> Vec<Property<Self>> {
        vec![Property::always("summary agrees with reference grouper", |m: &SumModel, s: &Vec<u8>| {
            let o = check_word(m.ctx, &m.cache, s);
            let mut st = m.stats.lock().unwrap_or_else(|e| e.into_inner());
            st.eval();
            st.outcome(o);
            let groups = ref_groups(s).len();
            st.dim("groups", groups);
            if groups >= 2 {
                st.nontrivial(s);
            }
            if s.len() == 5 && s[0] == 3 && s[1] == 4 && s[2] == 0 && s[3] == 2 {
                let w: Vec<&str> = s.iter().map(|x| SYMS[*x as usize]).collect();
                st.sample(3, || json!({"word": w, "outcome": o, "reference_groups": ref_groups(s).iter().map(|g| [g.start, g.end]).collect::<Vec<_>>()}));
            }
            true
        })]
    }
}

pub fn run(ctx: &'static Ctx) -> (&'static str, Value, Vec<&'static str>) {
    let thorough = ctx.tier.thorough();
    let cache = Arc::new(Cache::new());
    let configs: Vec<(Vec<u8>, usize)> = if thorough {
        vec![((0..7).collect(), 8), (vec![0, 2], 16), (vec![0, 1, 2, 7, 3], 9)]
    } else {
        vec![((0..7).collect(), 6), (vec![0, 2], 12), (vec![0, 2, 7, 3], 7)]
    };
    let mut states = 0u64;
    let mut transitions = 0u64;
    let mut stats = Stats::new();
    let mut reports = Vec::new();
    for (alphabet, depth) in configs {
        let tr = Arc::new(AtomicU64::new(0));
        let sh = Arc::new(Mutex::new(Stats::new()));
        let mk = || SumModel { alphabet: alphabet.clone(), depth, ctx, cache: cache.clone(), transitions: tr.clone(), stats: sh.clone() };
        let bfs = mk().checker().threads(16).spawn_bfs().join();
        let u1 = bfs.unique_state_count() as u64;
        let t1 = tr.swap(0, Ordering::Relaxed);
        let st1 = std::mem::take(&mut *sh.lock().unwrap());
        let k = alphabet.len() as u64;
        let expected: u64 = (0..=depth as u32).map(|l| k.pow(l)).sum();
        if u1 != expected {
            machinery(&format!("C14 state count {u1} != expected {expected}"));
        }
        reports.push(json!({"alphabet": alphabet.iter().map(|a| SYMS[*a as usize]).collect::<Vec<_>>(), "depth": depth, "unique_states": u1, "transitions": t1}));
        states += u1;
        transitions += t1;
        stats = stats.merge(st1);
    }
    // structured long lists: a realistic volume (metadata block, then 1,2,1,3 elevations of 120 radials)
    let mut long: Vec<u8> = vec![3, 4, 5, 5, 5, 6, 6];
    for e in [1u8, 2, 0, 7] {
        long.extend(std::iter::repeat(e).take(120));
    }
    long.extend([3u8, 1, 1, 3, 3, 4, 4]);
    let longs = vec![long, vec![0u8; 500], (0..500).map(|i| [0u8, 2, 3, 7, 4, 5][i % 6]).collect()];
    let mut longs = longs;
    // an elevation resumed after k intervening groups, k = 1..=100 (radial groups of other
    // elevations, or status / VCP / other messages)
    for k in 1..=100usize {
        let mut a: Vec<u8> = vec![0];
        a.extend((0..k).map(|i| if i % 2 == 0 { 2u8 } else { 7 }));
        a.push(0);
        longs.push(a);
        let mut b: Vec<u8> = vec![2, 2];
        b.extend((0..k).map(|i| [3u8, 4, 5, 6, 3][i % 5]));
        b.extend([2u8, 0, 2]);
        longs.push(b);
    }
    for w in &longs {
        let o = check_word(ctx, &cache, w);
        stats.eval();
        stats.outcome(o);
        stats.nontrivial(&w[..w.len().min(64)]);
        stats.count("structured_long_lists", 1);
    }
    let halpha: Vec<Vec<u8>> = vec![vec![0, 0, 2, 0], vec![3, 4, 0], vec![], vec![1; 40], vec![2, 7, 2, 7, 0, 3, 0], (0..80).map(|i| [0u8, 2, 7][i % 3]).collect()];
    let sh = history_check(
        ctx,
        "summarize_messages",
        halpha.len(),
        3,
        |i| {
            let msgs = cache.list(&halpha[i]);
            match guarded(|| summarize::messages(&msgs)) {
                Caught::Ret(s) => format!(
                    "{:?}|{:?}|{:?}|{}",
                    s.message_groups.iter().map(|g| (g.start_message_index, g.end_message_index, g.is_continued, g.elevation_number, g.data_types.as_ref().map(|d| { let mut v: Vec<_> = d.iter().collect(); v.sort(); format!("{:?}", v) }))).collect::<Vec<_>>(),
                    s.earliest_collection_time,
                    s.latest_collection_time,
                    s.volume_coverage_patterns.len()
                ),
                Caught::Panic(p) => format!("panic:{}", panic_class(&p)),
            }
        },
        |i| format!("list#{i}(len {})", halpha[i].len()),
    );
    stats = stats.merge(sh);
    // header segmentation fields: every word of length <= 5 (thorough 6) again with the messages
    // labelled "segment k of 3" / "segment p+2 of 65535"
    for mode in [1u8, 2] {
        SEGMENT_MODE.with(|m| m.set(mode));
        let cache2 = Cache::new();
        let maxlen = if ctx.tier.thorough() { 6 } else { 5 };
        for len in 0..=maxlen {
            for w in words(SYMS.len() as u64, len) {
                let word: Vec<u8> = w.iter().map(|x| *x as u8).collect();
                let o = check_word(ctx, &cache2, &word);
                stats.eval();
                stats.outcome(o);
            }
        }
        stats.count("words_with_segmented_headers", 1);
    }
    SEGMENT_MODE.with(|m| m.set(0));
    // free header fields: the summary is a function of message type, elevation number, azimuth,
    // times and data blocks only. Every word over {R1, R2, S} up to length 5 (thorough 6), with
    // the radial status of at most two radial positions deviating from "intermediate" to any of
    // the six documented codes (all pairs of codes), and one position deviating in each of the
    // other free fields; the reference grouper ignores all of them.
    {
        use rayon::prelude::*;
        let fa: [u8; 3] = [0, 2, 3];
        let maxlen = if ctx.tier.thorough() { 6 } else { 5 };
        let mut var: std::collections::HashMap<(u8, usize, u8, u32), dm::Message> = std::collections::HashMap::new();
        for sym in [0u8, 2] {
            for pos in 0..maxlen {
                for (fi, (_, vals)) in FREE_FIELDS.iter().enumerate() {
                    for v in vals.iter() {
                        var.insert((sym, pos, fi as u8, *v), build_message_with(sym as usize, pos, Some((fi as u8, *v))));
                    }
                }
            }
        }
        let all_words: Vec<Vec<u8>> = (0..=maxlen).flat_map(|len| words(3, len).map(|w| w.iter().map(|x| fa[*x as usize]).collect::<Vec<u8>>()).collect::<Vec<_>>()).collect();
        let fstats = all_words
            .par_iter()
            .map(|word| {
                let mut st = Stats::new();
                let base = cache.list(word);
                let rpos: Vec<usize> = (0..word.len()).filter(|i| word[*i] != 3).collect();
                let mut plans: Vec<Vec<(usize, u8, u32)>> = Vec::new();
                for (a, &pa) in rpos.iter().enumerate() {
                    for (fi, (_, vals)) in FREE_FIELDS.iter().enumerate() {
                        for v in vals.iter() {
                            if fi == 0 && *v == 1 {
                                continue;
                            }
                            plans.push(vec![(pa, fi as u8, *v)]);
                        }
                    }
                    for &pb in rpos.iter().skip(a + 1) {
                        for va in [0u32, 2, 3, 4, 5] {
                            for vb in [0u32, 2, 3, 4, 5] {
                                plans.push(vec![(pa, 0, va), (pb, 0, vb)]);
                            }
                        }
                    }
                }
                for plan in plans {
                    let mut msgs = base.clone();
                    for (p, f, v) in plan.iter() {
                        if let Some(m) = var.get(&(word[*p], *p, *f, *v)) {
                            msgs[*p] = m.clone();
                        }
                    }
                    let o = check_list(ctx, msgs, word, &plan);
                    st.eval();
                    st.outcome(o);
                    st.count("lists_with_free_header_fields_varied", 1);
                    st.dim("free_field", FREE_FIELDS[plan[0].1 as usize].0);
                    if plan.len() == 2 {
                        st.dim("status_pair", format!("{}{}", plan[0].2, plan[1].2));
                        st.nontrivial(format!("ff{:?}{:?}", word, plan).as_bytes());
                    }
                }
                st
            })
            .reduce(Stats::new, Stats::merge);
        stats = stats.merge(fstats);
    }
    let mut cov = stats.coverage(
        "stateright BFS over message words: alphabet {R1 (elev 1, REF), R1v (elev 1, REF+VEL, VOL 212), R2 (elev 2, all moments, VOL 35), S, V, O3, O18} to depth 6 (thorough 7), {R1,R2} to depth 12 (14), {R1,R2,R3n,S[,R1v]} to depth 7 (8); each symbol is a real decoded Message stamped with its position; invariant runs the real summarize::messages in every state and checks tiling, count=span, maximal-run rule, continuation flags, data-type counts, first/last azimuth and time, collection-time range, VCP set, and a split differential from non-initial states; plus 200 lists in which an elevation is resumed after k = 1..=100 intervening groups; plus every word over {R1,R2,S} to length 5 (6) with the radial status of <= 2 radial positions set to each (pair) of the six documented codes and one position deviating in spot blanking / azimuth spacing / indexing / cut sector, against the same reference (the summary is not a function of those fields). non-trivial = >=2 reference groups",
        true,
        json!({"models": reports}),
    );
    cov["states"] = json!(states);
    cov["transitions"] = json!(transitions);
    cov["traces_validated_against_impl"] = json!(states);
    (
        "model_checking",
        cov,
        vec!["coded fields of every message are within their documented domains", "reference grouper in harness", "data-type names are the public HashMap keys of MessageGroupSummary"],
    )
}

pub fn replay(ctx: &'static Ctx, case: &Value) {
    if case["op"].as_str() == Some("history") {
        let _ = run(ctx);
        return;
    }
    let w: Vec<u8> = case["word"].as_array().map(|a| a.iter().map(|x| x.as_u64().unwrap_or(0) as u8).collect()).unwrap_or_default();
    SEGMENT_MODE.with(|m| m.set(case["segment_mode"].as_u64().unwrap_or(0) as u8));
    let cache = Cache::new();
    let ov: Vec<(usize, u8, u32)> = case["overrides"].as_array().map(|a| a.iter().map(|o| (o[0].as_u64().unwrap_or(0) as usize, o[1].as_u64().unwrap_or(0) as u8, o[2].as_u64().unwrap_or(0) as u32)).collect()).unwrap_or_default();
    let mut msgs = cache.list(&w);
    for (p, f, v) in ov.iter() {
        if *p < msgs.len() {
            msgs[*p] = build_message_with(w[*p] as usize, *p, Some((*f, *v)));
        }
    }
    let o = check_list(ctx, msgs, &w, &ov);
    SEGMENT_MODE.with(|m| m.set(0));
    println!("replay C14 {:?} -> {o}", w.iter().map(|x| SYMS[*x as usize]).collect::<Vec<_>>());
}
