//! C03 — message streams are framed correctly: N messages in, N messages out.
//! E3 over all short streams of a 9-symbol kind alphabet and all type-code pairs, plus every
//! truncation point of a base set; differential oracle (message i == the same bytes decoded alone).

use crate::core::*;
use crate::enc::*;
use crate::t31::*;
use nexrad_decode::messages as dm;
use rayon::prelude::*;
use serde_json::{json, Value};

pub const SYMBOLS: [&str; 13] = ["status", "vcp", "t15", "t3", "t18", "u200", "t31_empty", "t31_basic", "t31_all", "t31_1840", "vcp51", "t31_phi257", "t31_elv_last"];

/// Bytes of one message of symbol `sym` at stream position `pos` (position is stamped into the
/// header sequence number and the time so that equal kinds are distinguishable).
pub fn message_bytes(sym: usize, pos: usize) -> Vec<u8> {
    let mut mh = MsgHeader::simple(0, 19000, 1000 + pos as u32 * 17);
    mh.seq = pos as u16;
    match sym {
        0 => {
            mh.typ = 2;
            fixed_frame(&mh, &rda_body(&rda_in_domain()))
        }
        1 => {
            mh.typ = 5;
            let cuts = vec![VcpCut::new(0x0058, 0, 1, 1, 1), VcpCut::new(0x00B0, 2, 4, 0, 2)];
            fixed_frame(&mh, &vcp_body(&vcp_header_hw(212, 2), &cuts))
        }
        2 => {
            mh.typ = 15;
            mh.count = 3;
            let segs = vec![vec![vec![(1u16, 511u16)]; 360]];
            let mut b = clutter_body(19000, 5, 1, &segs);
            b.truncate(FRAME - MSG_HEADER);
            fixed_frame(&mh, &b)
        }
        3 | 4 | 5 => {
            mh.typ = [3u8, 18, 200][sym - 3];
            let body: Vec<u8> = (0..FRAME - MSG_HEADER).map(|i| plan_byte(0, sym, i)).collect();
            fixed_frame(&mh, &body)
        }
        6 => t31_message(&mh, &T31Header::basic(1, pos as u16, 19000, pos as u32), &[], &Layout::default()),
        7 => {
            let (h, b) = simple_radial(1 + (pos % 3) as u8, pos as u16 + 1, 19000, pos as u32, &[3], 4, Some(212));
            t31_message(&mh, &h, &b, &Layout::default())
        }
        8 => {
            let (h, b) = simple_radial(2, pos as u16 + 1, 19000, pos as u32, &[3, 4, 5, 6, 7, 8, 9], 6, Some(35));
            t31_message(&mh, &h, &b, &Layout::default())
        }
        9 => {
            // a radial larger than a fixed frame: 1840 gates of REF and VEL
            let (h, b) = simple_radial(3, pos as u16 + 1, 19000, pos as u32, &[3, 4], 1840, Some(212));
            t31_message(&mh, &h, &b, &Layout::default())
        }
        10 => {
            mh.typ = 5;
            let cuts: Vec<VcpCut> = (0..51).map(|i| VcpCut::new(0x0058 + 8 * i, (i % 3) as u8, 1 + (i % 5) as u8, (i % 2) as u8, i)).collect();
            fixed_frame(&mh, &vcp_body(&vcp_header_hw(215, 51), &cuts))
        }
        12 => {
            // the physically last block is the shortest one (12-byte ELV); a zero-gate moment before it
            let h = T31Header::basic(5, pos as u16 + 1, 19000, pos as u32);
            let blocks = vec![Block::rad(5), Block::moment(KIND_NAMES[4], 0, 8, 2.0, 129.0, &[]), Block::elv(5)];
            t31_message(&mh, &h, &blocks, &Layout::default())
        }
        _ => {
            // 16-bit PHI with an odd gate count above 256, no VOL block
            let (h, b) = simple_radial(4, pos as u16 + 1, 19000, pos as u32, &[7, 3], 257, None);
            t31_message(&mh, &h, &b, &Layout::default())
        }
    }
}

/// message for an arbitrary type code (two-frame sweep)
fn code_message(code: u8, pos: usize) -> Vec<u8> {
    match code {
        2 => message_bytes(0, pos),
        5 => message_bytes(1, pos),
        31 => message_bytes(7, pos),
        c => {
            let mut mh = MsgHeader::simple(c, 19000, 1000 + pos as u32);
            mh.seq = pos as u16;
            let body: Vec<u8> = (0..FRAME - MSG_HEADER).map(|i| plan_byte(1, c as usize, i)).collect();
            fixed_frame(&mh, &body)
        }
    }
}

fn decode_stream(bytes: Vec<u8>) -> Caught<Result<Vec<dm::Message>, String>> {
    guarded(move || dm::decode_messages(&mut std::io::Cursor::new(bytes)).map_err(|e| format!("{:?}", e)))
}

fn header_intact(m: &dm::Message, bytes: &[u8]) -> bool {
    let h = m.header();
    h.segment_size as u64 == rd(bytes, 12, 2)
        && h.redundant_channel as u64 == rd(bytes, 14, 1)
        && h.message_type as u64 == rd(bytes, 15, 1)
        && h.sequence_number as u64 == rd(bytes, 16, 2)
        && h.date as u64 == rd(bytes, 18, 2)
        && h.time as u64 == rd(bytes, 20, 4)
        && h.segment_count as u64 == rd(bytes, 24, 2)
        && h.segment_number as u64 == rd(bytes, 26, 2)
}

/// Checks one stream given as per-message byte strings with a label per message.
fn check_stream(ctx: &Ctx, parts: &[Vec<u8>], labels: &[String], wit: &dyn Fn() -> Value, also_record: bool) -> &'static str {
    let stream: Vec<u8> = parts.concat();
    let all = match decode_stream(stream.clone()) {
        Caught::Panic(p) => {
            ctx.fail(&format!("framing:panic:{}", panic_class(&p)), || format!("{:?}: {p}", labels), wit);
            return "panic";
        }
        Caught::Ret(Err(e)) => {
            ctx.fail("framing:well_formed_stream_rejected", || format!("{:?}: {e}", labels), wit);
            return "rejected";
        }
        Caught::Ret(Ok(v)) => v,
    };
    if all.len() != parts.len() {
        let sig = if all.len() < parts.len() { "framing:fewer_messages_out_than_in" } else { "framing:more_messages_out_than_in" };
        ctx.fail(sig, || format!("{:?}: {} in, {} out", labels, parts.len(), all.len()), wit);
        return "count_mismatch";
    }
    for (i, p) in parts.iter().enumerate() {
        let alone = match decode_stream(p.clone()) {
            Caught::Ret(Ok(v)) if v.len() == 1 => v.into_iter().next(),
            _ => None,
        };
        let Some(alone) = alone else {
            ctx.fail(&format!("framing:single_message_does_not_decode_alone:{}", labels[i]), || format!("position {i}"), wit);
            return "alone_failed";
        };
        if all[i] != alone {
            ctx.fail(
                &format!("framing:message_differs_from_decoded_alone:{}", labels[i]),
                || format!("{:?}: position {i}", labels),
                wit,
            );
            return "differs";
        }
        if !header_intact(&all[i], p) {
            ctx.fail(&format!("framing:header_not_intact:{}", labels[i]), || format!("position {i}"), wit);
            return "header";
        }
        let code = p[15];
        let is_other = matches!(all[i].contents(), dm::MessageContents::Other);
        match code {
            2 => {
                if !matches!(all[i].contents(), dm::MessageContents::RDAStatusData(_)) {
                    ctx.fail("framing:type2_not_status", || format!("position {i}"), wit);
                }
            }
            5 => {
                if !matches!(all[i].contents(), dm::MessageContents::VolumeCoveragePattern(_)) {
                    ctx.fail("framing:type5_not_vcp", || format!("position {i}"), wit);
                }
            }
            31 => {
                if !matches!(all[i].contents(), dm::MessageContents::DigitalRadarData(_)) {
                    ctx.fail("framing:type31_not_radar_data", || format!("position {i}"), wit);
                }
            }
            15 => {}
            _ => {
                if !is_other {
                    ctx.fail("framing:undecoded_type_not_placeholder", || format!("code {code} at position {i}"), wit);
                }
            }
        }
    }
    #[cfg(feature = "f-decstack")]
    if also_record {
        let r = nexrad_data::volume::Record::new(stream.clone());
        match guarded(|| r.messages().map_err(|e| format!("{:?}", e))) {
            Caught::Ret(Ok(v)) if v == all => {}
            other => ctx.fail("framing:record_messages_differs", || format!("{:?}: {:?}", labels, other.ret().map(|r| r.map(|v| v.len()))), wit),
        }
    }
    "ok"
}

/// Every truncation point (optionally strided in the interior of fixed frames) of a stream.
fn check_truncations(ctx: &Ctx, syms: &[usize], stride: usize, st: &mut Stats) {
    let parts: Vec<Vec<u8>> = syms.iter().enumerate().map(|(i, s)| message_bytes(*s, i)).collect();
    let stream: Vec<u8> = parts.concat();
    let mut bounds = vec![0usize];
    for p in &parts {
        bounds.push(bounds.last().copied().unwrap_or(0) + p.len());
    }
    let full = match decode_stream(stream.clone()) {
        Caught::Ret(Ok(v)) => v,
        _ => return,
    };
    let cuts: Vec<usize> = (0..stream.len())
        .filter(|t| {
            if stride <= 1 {
                return true;
            }
            let k = bounds.iter().rposition(|b| b <= t).unwrap_or(0);
            let r = t - bounds[k];
            let to_end = bounds.get(k + 1).map(|e| e - t).unwrap_or(0);
            r < 200 || to_end < 200 || t % stride == 0
        })
        .collect();
    let s: Stats = cuts
        .par_iter()
        .fold(Stats::new, |mut st, &t| {
            let k = bounds.iter().rposition(|b| *b <= t).unwrap_or(0);
            let r = t - bounds[k];
            let wit = || json!({"op": "truncate", "symbols": syms, "cut": t});
            let kind = SYMBOLS[syms[k.min(syms.len() - 1)]];
            st.eval();
            match decode_stream(stream[..t].to_vec()) {
                Caught::Panic(p) => ctx.fail(&format!("truncation:panic:{}", panic_class(&p)), || format!("cut {t}: {p}"), wit),
                Caught::Ret(Ok(v)) => {
                    if r >= MSG_HEADER {
                        ctx.fail(
                            &format!("truncation:cut_inside_body_not_reported:{kind}"),
                            || format!("{:?} cut at {t} ({r} bytes into message {k}): Ok with {} messages", syms, v.len()),
                            wit,
                        );
                    } else if v.len() != k || v[..] != full[..k] {
                        ctx.fail("truncation:wrong_prefix", || format!("{:?} cut at {t}: {} messages, expected first {k}", syms, v.len()), wit);
                    } else {
                        st.outcome("trunc_ok_prefix");
                    }
                }
                Caught::Ret(Err(_)) => {
                    if r < MSG_HEADER {
                        ctx.fail(
                            &format!("truncation:short_trailing_fragment_rejected:{kind}"),
                            || format!("{:?} cut at {t} (only {r} bytes after message {k}): Err", syms),
                            wit,
                        );
                    } else {
                        st.outcome("trunc_err");
                    }
                }
            }
            st.nontrivial(format!("t{:?}/{t}", syms).as_bytes());
            st
        })
        .reduce(Stats::new, Stats::merge);
    let old = std::mem::take(st);
    *st = old.merge(s);
}

pub fn run(ctx: &'static Ctx) -> (&'static str, Value, Vec<&'static str>) {
    let thorough = ctx.tier.thorough();
    let maxlen = if thorough { 7 } else { 5 };
    let mut words_all: Vec<Vec<u64>> = Vec::new();
    for len in 0..=maxlen {
        words_all.extend(words(9, len));
    }
    // the three extra kinds (1840-gate radial, 51-cut VCP, 257-gate 16-bit PHI): every stream over
    // all 12 kinds up to one message shorter, keeping only those that use an extra kind
    for len in 1..maxlen {
        words_all.extend(words(13, len).filter(|w| w.iter().any(|x| *x >= 9)));
    }
    let s1: Stats = words_all
        .par_iter()
        .fold(Stats::new, |mut st, w| {
            let syms: Vec<usize> = w.iter().map(|x| *x as usize).collect();
            let parts: Vec<Vec<u8>> = syms.iter().enumerate().map(|(i, s)| message_bytes(*s, i)).collect();
            let labels: Vec<String> = syms.iter().map(|s| SYMBOLS[*s].to_string()).collect();
            let o = check_stream(ctx, &parts, &labels, &|| json!({"op": "stream", "symbols": syms}), syms.len() <= 3);
            st.eval();
            st.outcome(o);
            st.dim("length", syms.len());
            if syms.len() >= 2 {
                st.nontrivial(format!("w{:?}", syms).as_bytes());
            }
            if syms.len() == 4 && syms[0] == 7 && syms[1] == 0 && syms[2] == 8 && syms[3] < 3 {
                st.sample(3, || json!({"stream": labels, "bytes": parts.iter().map(|p| p.len()).collect::<Vec<_>>(), "outcome": o}));
            }
            st
        })
        .reduce(Stats::new, Stats::merge);
    // all 256 x 256 (quick: 256 x 16) type-code pairs
    let second: Vec<u8> = if thorough { (0..=255).collect() } else { vec![0, 1, 2, 3, 5, 13, 15, 18, 19, 29, 30, 31, 32, 33, 200, 255] };
    let s2: Stats = (0u32..256)
        .into_par_iter()
        .fold(Stats::new, |mut st, a| {
            for &b in &second {
                let parts = vec![code_message(a as u8, 0), code_message(b, 1)];
                let labels = vec![format!("code{a}"), format!("code{b}")];
                let o = check_stream(ctx, &parts, &labels, &|| json!({"op": "codes", "a": a, "b": b}), false);
                st.eval();
                st.outcome(o);
                st.nontrivial(&[b'c', a as u8, b]);
            }
            st
        })
        .reduce(Stats::new, Stats::merge);
    // long structured streams
    let mut s3 = Stats::new();
    let longs: Vec<Vec<usize>> = vec![vec![7; 300], (0..300).map(|i| if i % 2 == 0 { 0 } else { 8 }).collect(), (0..300).map(|i| i % 9).collect()];
    for syms in &longs {
        let parts: Vec<Vec<u8>> = syms.iter().enumerate().map(|(i, s)| message_bytes(*s, i)).collect();
        let labels: Vec<String> = syms.iter().map(|s| SYMBOLS[*s].to_string()).collect();
        let o = check_stream(ctx, &parts, &labels, &|| json!({"op": "stream", "symbols": syms}), true);
        s3.eval();
        s3.outcome(o);
        s3.nontrivial(format!("L{:?}", &syms[..8]).as_bytes());
    }
    // runs of consecutive fixed-length frames of every length 1..=150 (a real metadata record holds
    // 134), followed by a radial and a second run: count/size-dependent framing state shows here
    let run_lengths: Vec<usize> = if thorough { (1..=150).collect() } else { (1..=40).chain([64, 100, 133, 134, 135, 150]).collect() };
    let s3b: Stats = run_lengths
        .par_iter()
        .fold(Stats::new, |mut st, &l| {
            for variant in 0..2usize {
                let mut syms: Vec<usize> = (0..l).map(|i| [0usize, 3, 4, 5, 1, 2, 10][(i * (variant + 1) + variant) % 7]).collect();
                syms.push(7 + variant);
                syms.extend((0..l).map(|i| [3usize, 0, 5][(i + variant) % 3]));
                let parts: Vec<Vec<u8>> = syms.iter().enumerate().map(|(i, s)| message_bytes(*s, i)).collect();
                let labels: Vec<String> = syms.iter().map(|s| SYMBOLS[*s].to_string()).collect();
                let o = check_stream(ctx, &parts, &labels, &|| json!({"op": "stream", "symbols": syms}), variant == 0);
                st.eval();
                st.outcome(o);
                st.count("long_fixed_frame_runs", 1);
                st.nontrivial(format!("run{l}/{variant}").as_bytes());
            }
            st
        })
        .reduce(Stats::new, Stats::merge);
    let s3 = s3.merge(s3b);
    // truncations
    let mut s4 = Stats::new();
    let mut bases: Vec<Vec<usize>> = Vec::new();
    for a in 0..13 {
        bases.push(vec![a]);
        for b in [0usize, 6, 7, 8, 11, 12] {
            bases.push(vec![a, b]);
        }
    }
    bases.push(vec![7, 8, 0, 7]);
    bases.push(vec![6, 6, 6]);
    if thorough {
        for w in words(9, 3) {
            bases.push(w.iter().map(|x| *x as usize).collect());
        }
    }
    bases.sort();
    bases.dedup();
    for b in &bases {
        // every cut for streams without a fixed frame; fixed frames: every cut in the first/last 200
        // bytes of each message and every 7th (quick: 61st) in between
        let has_fixed = b.iter().any(|s| *s < 6 || *s == 10 || *s == 9);
        check_truncations(ctx, b, if !has_fixed { 1 } else if thorough { 7 } else { 61 }, &mut s4);
    }
    s4.count("truncation_base_streams", bases.len() as u64);
    // history: sequences of <= 3 decode calls on one fresh thread over an alphabet with large,
    // small, fixed-frame-heavy, truncated and garbage inputs; each must equal its history-free result
    let halpha: Vec<Vec<u8>> = {
        let st = |syms: &[usize]| -> Vec<u8> { syms.iter().enumerate().flat_map(|(i, s)| message_bytes(*s, i)).collect() };
        let mut trunc = st(&[9, 7]);
        trunc.truncate(3000);
        let long_fixed: Vec<usize> = (0..40).map(|i| [0usize, 3, 4][i % 3]).collect();
        vec![st(&[7, 0, 8]), st(&[9]), st(&[10, 11, 1]), trunc, vec![0xFFu8; 100], vec![], st(&long_fixed), st(&[6, 6])]
    };
    let sh = history_check(
        ctx,
        "decode_messages",
        halpha.len(),
        3,
        |i| match decode_stream(halpha[i].clone()) {
            Caught::Ret(Ok(v)) => format!("ok:{}:{:016x}", v.len(), fnv64(format!("{:?}", v.iter().map(|m| (m.header().sequence_number, m.header().time, matches!(m.contents(), dm::MessageContents::Other))).collect::<Vec<_>>()).as_bytes())),
            Caught::Ret(Err(_)) => "err".to_string(),
            Caught::Panic(p) => format!("panic:{}", panic_class(&p)),
        },
        |i| format!("input#{i}({} bytes)", halpha[i].len()),
    );
    // short-read environment: the stream arrives through a reader whose reads stop at arbitrary offsets
    let mut ssr = Stats::new();
    {
        use crate::guard::{short_read_check, SplitReader};
        for syms in [vec![7usize, 0, 8], vec![9], vec![10, 7], vec![0, 3, 6]] {
            let bytes: Vec<u8> = syms.iter().enumerate().flat_map(|(i, s)| message_bytes(*s, i)).collect();
            let n = short_read_check(ctx, "decode_messages", &bytes, false, |r: &mut SplitReader| dm::decode_messages(r).ok(), |shape| json!({"op": "short_read", "symbols": syms, "boundaries": shape.0, "max_chunk": shape.1}));
            ssr.evaluations += n;
            ssr.count("short_read_shapes", n);
            let n = crate::guard::two_actor_check(ctx, "decode_messages", &bytes, 32, |r: &mut SplitReader| dm::decode_messages(r).ok().map(|v| format!("{v:?}")), |mode, k| json!({"op": "two_actor", "symbols": syms, "mode": mode, "read_call": k}));
            ssr.evaluations += n;
            ssr.count("two_actor_schedules", n);
        }
    }
    // context sweep: a first message with one halfword varied (status, VCP, type 31, others),
    // then a probe message, then a trailer; probe and trailer must decode exactly as they do alone
    let sctx: Stats = {
        use rayon::prelude::*;
        let ctxs = crate::props::disturb::context_messages();
        let mut probes: Vec<(String, Vec<u8>)> = [7usize, 8, 12, 11, 0, 1].iter().map(|s| (SYMBOLS[*s].to_string(), message_bytes(*s, 1))).collect();
        // a radial whose VOL block is physically last and carries non-zero bytes to its end
        {
            let (h, b) = simple_radial(2, 9, 19000, 4242, &[3], 5, Some(35));
            let n = b.len();
            let mut phys: Vec<usize> = (1..n).collect();
            phys.push(0);
            let mut m = t31_message(&MsgHeader::simple(31, 19000, 1), &h, &b, &Layout { ptrs: phys.clone(), phys, ..Layout::default() });
            let l = m.len();
            for (i, x) in m[l - 12..].iter_mut().enumerate() {
                if *x == 0 {
                    *x = 0x21 + i as u8;
                }
            }
            probes.push(("t31_vol_last".to_string(), m));
        }
        let trailer = message_bytes(0, 2);
        let alone: Vec<Option<dm::Message>> = probes.iter().map(|(_, p)| match decode_stream(p.clone()) { Caught::Ret(Ok(mut v)) if v.len() == 1 => v.pop(), _ => None }).collect();
        for (pi, a) in alone.iter().enumerate() {
            if a.is_none() {
                ctx.note(format!("context sweep: probe {} does not decode alone and was skipped", probes[pi].0));
            }
        }
        let trailer_alone = match decode_stream(trailer.clone()) { Caught::Ret(Ok(mut v)) if v.len() == 1 => v.pop(), _ => None };
        ctxs.par_iter()
            .fold(Stats::new, |mut st, (label, cbytes)| {
                // a context message that does not decode by itself says nothing about what follows
                let ctx_ok = matches!(decode_stream(cbytes.clone()), Caught::Ret(Ok(ref v)) if v.len() == 1);
                for (pi, (pl, pb)) in probes.iter().enumerate() {
                    st.eval();
                    if !ctx_ok || alone[pi].is_none() || trailer_alone.is_none() {
                        st.outcome("context_skipped");
                        continue;
                    }
                    let stream: Vec<u8> = [cbytes.as_slice(), pb.as_slice(), trailer.as_slice()].concat();
                    let wit = || json!({"op": "context", "context": label, "probe": pl, "context_hex": hex(&cbytes[..cbytes.len().min(200)])});
                    match decode_stream(stream) {
                        Caught::Ret(Ok(v)) if v.len() == 3 => {
                            if Some(&v[1]) != alone[pi].as_ref() || Some(&v[2]) != trailer_alone.as_ref() {
                                ctx.fail(&format!("context:message_decodes_differently_after_another_message:{pl}"), || format!("after {label}: the {pl} message (or the status message behind it) differs from the same bytes decoded alone"), wit);
                            }
                            st.outcome("context_ok");
                        }
                        Caught::Ret(Ok(v)) => ctx.fail("context:message_count_changes_after_another_message", || format!("after {label}: {} messages out of 3 ({pl})", v.len()), wit),
                        Caught::Ret(Err(e)) => ctx.fail("context:well_formed_stream_rejected_after_another_message", || format!("after {label}, probe {pl}: {e}"), wit),
                        Caught::Panic(p) => ctx.fail(&format!("framing:panic:{}", panic_class(&p)), || format!("after {label}, probe {pl}: {p}"), wit),
                    }
                }
                st.count("context_messages", 1);
                st.nontrivial(label.as_bytes());
                st
            })
            .reduce(Stats::new, Stats::merge)
    };
    let stats = s1.merge(s2).merge(s3).merge(s4).merge(sh).merge(ssr).merge(sctx);
    let cov = stats.coverage(
        "all streams over a 9-kind alphabet {status, VCP, type 15, type 3, type 18, unknown 200, type-31 with 0 / 4 / 10 blocks} and, one message shorter, over 13 kinds (+ 1840-gate radial larger than a frame, 51-cut VCP, 257-gate 16-bit PHI radial, a radial whose last block is the 12-byte ELV block) of length 0..=5 (thorough 0..=6), each message stamped with its position; all 256x16 (thorough 256x256) two-frame type-code pairs; three 300-message streams; runs of 1..=40,64,100,133..135,150 (thorough 1..=150) consecutive fixed frames, a radial, and a second run; truncations of a base set: every cut for type-31-only streams, every cut within 200 bytes of a message boundary plus a stride inside fixed frames. Context sweep: a status / VCP / type-31 message with each halfword set to each of six values, followed by seven probe messages and a trailer that must decode as they do alone. History: every sequence of <= 3 decode calls over 8 inputs on a fresh thread; short-read reader shapes. Differential oracle: message i equals the same bytes decoded alone. non-trivial = >=2 messages or a truncation; distinct by content hash",
        true,
        json!({"alphabet": SYMBOLS, "max_length": maxlen}),
    );
    (
        "exploration",
        cov,
        vec!["reference framing per DESIGN Appendix A (2432-byte frames, contiguous type-31)", "type 15 may surface as placeholder or clutter map"],
    )
}

pub fn replay(ctx: &'static Ctx, case: &Value) {
    let syms: Vec<usize> = case["symbols"].as_array().map(|a| a.iter().map(|x| x.as_u64().unwrap_or(0) as usize).collect()).unwrap_or_default();
    match case["op"].as_str() {
        Some("two_actor") | Some("context") => {
            let _ = run(ctx);
        }
        Some("stream") => {
            let parts: Vec<Vec<u8>> = syms.iter().enumerate().map(|(i, s)| message_bytes(*s, i)).collect();
            let labels: Vec<String> = syms.iter().map(|s| SYMBOLS[*s].to_string()).collect();
            let o = check_stream(ctx, &parts, &labels, &|| case.clone(), true);
            println!("replay stream {:?} -> {o}", labels);
        }
        Some("codes") => {
            let a = case["a"].as_u64().unwrap_or(0) as u8;
            let b = case["b"].as_u64().unwrap_or(0) as u8;
            let o = check_stream(ctx, &[code_message(a, 0), code_message(b, 1)], &[format!("code{a}"), format!("code{b}")], &|| case.clone(), false);
            println!("replay codes {a},{b} -> {o}");
        }
        Some("truncate") => {
            let cut = case["cut"].as_u64().unwrap_or(0) as usize;
            let stream: Vec<u8> = syms.iter().enumerate().flat_map(|(i, s)| message_bytes(*s, i)).collect();
            let r = decode_stream(stream[..cut.min(stream.len())].to_vec());
            println!("replay truncate {:?} cut {cut}: {:?}", syms, r.ret().map(|r| r.map(|v| v.len())));
            let mut st = Stats::new();
            check_truncations(ctx, &syms, 1, &mut st);
        }
        Some("history") | Some("short_read") => {
            let _ = run(ctx);
        }
        _ => machinery("C03 replay: unknown op"),
    }
}
