//! C18 — real-time polling delivers chunks in order, without gaps or duplicates.
//! E1 + E4: the real `poll_chunks` runs on a paused current-thread tokio runtime against the S3
//! simulator with a scripted uploader; every request it makes after discovery is a choice point
//! of the deviation-bounded explorer. Roots cross start positions, stop points, consumer drops,
//! timestamp regimes and next-volume listing sizes.

use crate::core::*;
use crate::enc::*;
use crate::explore::*;
use crate::guard::{begin_case, end_case, start_watchdog, CaseId};
use crate::s3sim::*;
use crate::t31::*;
use nexrad_data::aws::realtime::{poll_chunks, Chunk, ChunkIdentifier, PollStats};
use serde_json::{json, Value};
use std::collections::HashMap;
use std::sync::mpsc::{channel, Receiver, Sender};
use std::sync::{Arc, Mutex, OnceLock};
use std::time::Duration;

const SITE: &str = "KDMX";
const BUCKET: &str = "unidata-nexrad-level2-chunks";
const POPULATED: usize = 500;
const REQUEST_HORIZON: usize = 400;

#[derive(Clone, Debug, PartialEq)]
pub struct Root {
    pub v0: usize,
    pub s0: usize,
    /// stop signal: None = only the horizon stop; Some(-1) = already sent before polling starts;
    /// Some(k) = sent while post-discovery request #k is being served
    pub stop_at: Option<i64>,
    /// consumer dropped once this many deliveries have been observed
    pub drop_after: Option<usize>,
    /// 0 = past-dated upload times, 1 = upload times around now + 5 s
    pub regime: u8,
    /// chunks already present in the next volume when it is first listed
    pub next_present: usize,
    pub with_stats: bool,
    pub deliveries_horizon: usize,
    pub bound: usize,
    pub discovery_faults: bool,
    /// index into s3sim::FRAMINGS: how every response body of the run is framed on the wire
    pub framing: usize,
    /// the server keeps connections alive, and before polling starts another current-thread runtime
    /// of the process has made a request to the same endpoint and stays alive, idle, while the
    /// poller runs on its own runtime (an application with one runtime for look-ups and one for
    /// polling); whatever the library shares between calls must not tie one runtime to the other
    pub prior_runtime: bool,
}

impl Root {
    pub fn json(&self) -> Value {
        json!({"v0": self.v0, "s0": self.s0, "stop_at": self.stop_at, "drop_after": self.drop_after, "regime": self.regime, "next_present": self.next_present,
            "with_stats": self.with_stats, "deliveries_horizon": self.deliveries_horizon, "bound": self.bound, "discovery_faults": self.discovery_faults, "framing": self.framing, "prior_runtime": self.prior_runtime})
    }
    pub fn from_json(v: &Value) -> Root {
        Root {
            v0: v["v0"].as_u64().unwrap_or(1) as usize,
            s0: v["s0"].as_u64().unwrap_or(1) as usize,
            stop_at: v["stop_at"].as_i64(),
            drop_after: v["drop_after"].as_u64().map(|x| x as usize),
            regime: v["regime"].as_u64().unwrap_or(0) as u8,
            next_present: v["next_present"].as_u64().unwrap_or(1) as usize,
            with_stats: v["with_stats"].as_bool().unwrap_or(false),
            framing: v["framing"].as_u64().unwrap_or(0) as usize,
            prior_runtime: v["prior_runtime"].as_bool().unwrap_or(false),
            deliveries_horizon: v["deliveries_horizon"].as_u64().unwrap_or(6) as usize,
            bound: v["bound"].as_u64().unwrap_or(1) as usize,
            discovery_faults: v["discovery_faults"].as_bool().unwrap_or(false),
        }
    }
}

// ---- uploaded objects (the reference model) ---------------------------------------------------

fn next_volume(v: usize) -> usize {
    if v == 999 {
        1
    } else {
        v + 1
    }
}

/// rotation distance from v0 going backwards (0 = v0, 1 = v0 - 1, ...)
fn back_distance(v0: usize, v: usize) -> usize {
    (v0 + 999 - v) % 999
}

fn volume_base_ms(root: &Root, base_ms: i64, v: usize) -> i64 {
    let back = back_distance(root.v0, v) as i64;
    // volumes ahead of v0 (not yet uploaded at start) get later times
    let rel = if back > 499 { (999 - back) } else { -back };
    base_ms + rel * 600_000
}

fn upload_ms(root: &Root, base_ms: i64, v: usize, s: usize) -> i64 {
    volume_base_ms(root, base_ms, v) + s as i64 * 10_000
}

fn volume_prefix(root: &Root, base_ms: i64, v: usize) -> String {
    chrono::DateTime::<chrono::Utc>::from_timestamp_millis(volume_base_ms(root, base_ms, v)).unwrap_or_default().format("%Y%m%d-%H%M%S").to_string()
}

fn chunk_name(prefix: &str, s: usize) -> String {
    format!("{prefix}-{s:03}-{}", if s == 1 { "S" } else if s == 55 { "E" } else { "I" })
}

fn chunk_bytes(v: usize, s: usize) -> Arc<Vec<u8>> {
    static CACHE: OnceLock<Mutex<HashMap<(usize, usize), Arc<Vec<u8>>>>> = OnceLock::new();
    let cache = CACHE.get_or_init(|| Mutex::new(HashMap::new()));
    if let Some(b) = cache.lock().unwrap_or_else(|e| e.into_inner()).get(&(v, s)) {
        return b.clone();
    }
    let bytes = if s == 1 {
        // start chunk: volume header + one compressed record holding a VCP and a status frame
        let cuts: Vec<VcpCut> = (0..9).map(|i| VcpCut::new(8 * (i + 1), if i % 2 == 0 { 0 } else { 2 }, if i == 0 { 1 } else { 4 }, 1, i)).collect();
        let mut payload = fixed_frame(&MsgHeader::simple(5, 19000, 1000), &vcp_body(&vcp_header_hw(212, 9), &cuts));
        payload.extend(fixed_frame(&MsgHeader::simple(2, 19000, 1001 + v as u32), &rda_body(&rda_in_domain())));
        volume(&VolHeader::basic(), &[record_bz(&payload, 1, false)])
    } else {
        let mut payload = Vec::new();
        for k in 0..2u16 {
            let (h, b) = simple_radial(((s - 2) / 6 + 1) as u8, (s as u16) * 2 + k, 19000, (v * 100 + s) as u32, &[3], 4, None);
            payload.extend(t31_message(&MsgHeader::simple(31, 19000, (v * 100 + s) as u32), &h, &b, &Layout::default()));
        }
        record_bz(&payload, 1, s % 2 == 0)
    };
    let b = Arc::new(bytes);
    cache.lock().unwrap_or_else(|e| e.into_inner()).insert((v, s), b.clone());
    b
}

// ---- environment --------------------------------------------------------------------------------

#[derive(Clone, Debug, PartialEq)]
pub struct Delivery {
    pub volume: usize,
    pub name: String,
    pub time_ms: Option<i64>,
    pub bytes_ok: bool,
    pub seen_at_request: usize,
}

pub const GET_MENU: [&str; 5] = ["present", "404_once", "500_once", "truncated_once", "never"];
pub const LIST_MENU: [&str; 5] = ["present", "empty_once", "500_once", "garbled_once", "never"];
pub const DISCOVERY_MENU: [&str; 3] = ["normal", "500", "garbled_or_404"];

struct Env {
    root: Root,
    base_ms: i64,
    choices: Choices,
    rx: Option<Receiver<(ChunkIdentifier, Chunk<'static>)>>,
    stop_tx: Sender<bool>,
    deliveries: Vec<Delivery>,
    requests: Vec<String>,
    gets_in_discovery: usize,
    post_requests: usize,
    /// last chunk the environment knows the poller holds (after discovery: (v0, s0))
    prev: (usize, usize),
    discovery_over: bool,
    newest_served: bool,
    /// a chunk that never appears although the two after it do (per-chunk visibility is independent)
    hole: Option<(usize, usize)>,
    never: bool,
    never_kind: &'static str,
    failures_for_current: usize,
    max_failures_for_one_target: usize,
    unexpected: Vec<String>,
    stop_sent_at_delivery_count: Option<usize>,
    horizon_hit: bool,
    log: Vec<String>,
    dropped_at: Option<usize>,
}

impl Env {
    fn drain(&mut self) {
        let at = self.requests.len();
        if let Some(rx) = &self.rx {
            while let Ok((id, chunk)) = rx.try_recv() {
                let v = id.volume().as_number();
                let seq = id.sequence().unwrap_or(0);
                let stored = chunk_bytes(v, seq.clamp(1, 55));
                let bytes_ok = chunk.data() == stored.as_slice();
                self.deliveries.push(Delivery { volume: v, name: id.name().to_string(), time_ms: id.date_time().map(|d| d.timestamp_millis()), bytes_ok, seen_at_request: at });
            }
        }
        if let Some(k) = self.root.drop_after {
            if self.rx.is_some() && self.deliveries.len() >= k {
                self.rx = None;
                self.dropped_at = Some(self.deliveries.len());
            }
        }
    }

    fn send_stop(&mut self) {
        if self.stop_sent_at_delivery_count.is_none() {
            let _ = self.stop_tx.send(true);
            self.stop_sent_at_delivery_count = Some(self.deliveries.len());
            self.log.push(format!("stop sent with {} deliveries observed", self.deliveries.len()));
        }
    }

    fn chunk_obj(&self, v: usize, s: usize) -> Obj {
        let prefix = volume_prefix(&self.root, self.base_ms, v);
        Obj { key: format!("{SITE}/{v}/{}", chunk_name(&prefix, s)), modified_ms: upload_ms(&self.root, self.base_ms, v, s), size_text: chunk_bytes(v, s).len().to_string(), fractional: true }
    }

    /// number of chunks of volume v visible right now (bucket model with an upload frontier)
    fn visible(&self, v: usize) -> usize {
        if !(1..=999).contains(&v) {
            return 0;
        }
        let (fv, fs) = self.prev; // frontier: newest visible chunk
        if v == fv {
            return fs;
        }
        // volumes completed before the frontier volume, back to POPULATED directories behind the start
        let back_from_start = back_distance(self.root.v0, v);
        if back_from_start >= 1 && back_from_start < POPULATED {
            return 55;
        }
        // volumes between the start volume and the frontier (completed during this run)
        let ahead_of_start = back_distance(v, self.root.v0); // distance from v0 forward to v
        let frontier_ahead = back_distance(fv, self.root.v0);
        if v == self.root.v0 && fv != self.root.v0 {
            return 55;
        }
        if ahead_of_start >= 1 && ahead_of_start < frontier_ahead && frontier_ahead < 400 {
            return 55;
        }
        0
    }

    fn serve_get(&self, v: usize, s: usize) -> Response {
        let o = self.chunk_obj(v, s);
        let r = Response::new(200, chunk_bytes(v, s).as_ref().clone()).header("Content-Type", "binary/octet-stream");
        if self.root.regime == 2 {
            r // objects without a Last-Modified header
        } else {
            r.header("Last-Modified", &http_date(o.modified_ms))
        }
    }

    /// volumes whose key "KDMX/<v>/..." starts with the given listing prefix (true string-prefix semantics)
    fn volumes_matching(prefix: &str) -> Vec<usize> {
        let Some(rest) = prefix.strip_prefix("KDMX/") else {
            return if "KDMX/".starts_with(prefix) { (1..=999).collect() } else { vec![] };
        };
        match rest.split_once('/') {
            Some((d, tail)) => d.parse::<usize>().ok().filter(|_| tail.is_empty() || true).map(|v| vec![v]).unwrap_or_default(),
            None => (1..=999usize).filter(|v| v.to_string().starts_with(rest)).collect(),
        }
    }

    fn list_objects(&self, prefix: &str, max_keys: Option<usize>, extra_visible: Option<(usize, usize)>) -> (Vec<Obj>, bool) {
        let mut objs: Vec<Obj> = Vec::new();
        for v in Self::volumes_matching(prefix) {
            let mut n = self.visible(v);
            if let Some((ev, es)) = extra_visible {
                if ev == v {
                    n = n.max(es);
                }
            }
            for s in 1..=n {
                let o = self.chunk_obj(v, s);
                if o.key.starts_with(prefix) {
                    objs.push(o);
                }
            }
            if let Some((hv, hs)) = self.hole {
                if hv == v {
                    for s in (hs + 1)..=(hs + 2).min(55) {
                        let o = self.chunk_obj(v, s);
                        if o.key.starts_with(prefix) {
                            objs.push(o);
                        }
                    }
                }
            }
        }
        objs.sort_by(|a, b| a.key.as_bytes().cmp(b.key.as_bytes()));
        let lim = max_keys.unwrap_or(1000);
        let truncated = objs.len() > lim;
        objs.truncate(lim);
        (objs, truncated)
    }

    fn parse_chunk_key(key: &str) -> Option<(usize, usize)> {
        let rest = key.strip_prefix("KDMX/")?;
        let (v, name) = rest.split_once('/')?;
        let v: usize = v.parse().ok()?;
        let s: usize = name.split('-').nth(2)?.parse().ok()?;
        Some((v, s))
    }

    /// Is this request a probe beyond the upload frontier (i.e. does it ask for the chunk that
    /// would be uploaded next)? Returns the position it probes.
    fn probe(&self, req: &Request) -> Option<(usize, usize)> {
        let (fv, fs) = self.prev;
        let next = if fs < 55 { (fv, fs + 1) } else { (next_volume(fv), 1) };
        match req {
            Request::Get { key, .. } => {
                let (v, s) = Self::parse_chunk_key(key)?;
                // the exact name must be the next chunk's real key, otherwise it is just a missing object
                if (v, s) == next && *key == self.chunk_obj(v, s).key {
                    Some(next)
                } else {
                    None
                }
            }
            Request::List { prefix, .. } => {
                // listing the *next* volume after an end chunk asks for what is uploaded next; listing
                // the current volume is a question about the present state and is answered truthfully
                if fs == 55 && Self::volumes_matching(prefix) == vec![next.0] && prefix.ends_with('/') {
                    Some(next)
                } else {
                    None
                }
            }
            _ => None,
        }
    }

    fn handle(&mut self, req: &Request) -> Response {
        self.drain();
        self.requests.push(req.raw().to_string());
        if self.requests.len() > if self.root.discovery_faults { 10 * REQUEST_HORIZON } else { REQUEST_HORIZON } {
            self.horizon_hit = true;
            self.send_stop();
            return Response::xml(404, not_found_xml("horizon"));
        }
        if matches!(req, Request::Get { .. }) {
            self.gets_in_discovery += 1;
        }
        // discovery lasts until the newest chunk present at start has been served once
        let probe = if self.newest_served { self.probe(req) } else { None };
        if let Request::Get { key, .. } = req {
            if *key == self.chunk_obj(self.root.v0, self.root.s0).key {
                self.newest_served = true;
            }
        }
        if probe.is_none() {
            return self.answer_truthfully(req);
        }
        // ---- a probe beyond the frontier: the uploader's answer is a choice point
        self.discovery_over = true;
        let k = self.post_requests as i64;
        self.post_requests += 1;
        if self.root.stop_at == Some(k) {
            self.send_stop();
        }
        if self.deliveries.len() >= self.root.deliveries_horizon {
            self.send_stop();
        }
        let (nv, ns) = probe.unwrap_or((0, 0));
        // when a new volume opens, `next_present` chunks become visible at once
        let advance_to = if ns == 1 && nv != self.prev.0 { (nv, self.root.next_present.max(1)) } else { (nv, ns) };
        match req {
            Request::Get { key, .. } => {
                if self.never {
                    self.failures_for_current += 1;
                    return Response::xml(404, not_found_xml(key));
                }
                let c = self.choices.choose(GET_MENU.len());
                self.log.push(format!("GET {nv}/{ns:03}: {}", GET_MENU[c]));
                match c {
                    0 => {
                        self.prev = advance_to;
                        self.max_failures_for_one_target = self.max_failures_for_one_target.max(self.failures_for_current);
                        self.failures_for_current = 0;
                        self.serve_get(nv, ns)
                    }
                    1 => {
                        self.failures_for_current += 1;
                        Response::xml(404, not_found_xml(key))
                    }
                    2 => {
                        self.failures_for_current += 1;
                        Response::xml(500, error_xml("InternalError"))
                    }
                    3 => {
                        // the right object with the right headers, but the transfer dies half-way
                        // (well past the magic bytes): a failed attempt, never a delivery
                        self.failures_for_current += 1;
                        // (a close-delimited body that is cut short is indistinguishable from a
                        // shorter object, so under that framing the fault is a 500 instead)
                        if matches!(crate::s3sim::FRAMINGS[self.root.framing % crate::s3sim::FRAMINGS.len()], crate::s3sim::Framing::Close) {
                            return Response::xml(500, error_xml("InternalError"));
                        }
                        let mut r = self.serve_get(nv, ns);
                        let n = r.body.len();
                        r.truncate_at = Some((n / 2).max(7).min(n.saturating_sub(1)));
                        r
                    }
                    _ => {
                        self.never = true;
                        self.never_kind = "download";
                        // this chunk never shows up, the two after it do
                        self.hole = Some((nv, ns));
                        self.failures_for_current += 1;
                        Response::xml(404, not_found_xml(key))
                    }
                }
            }
            Request::List { bucket, prefix, max_keys, .. } => {
                if self.never {
                    self.failures_for_current += 1;
                    let (objs, tr) = self.list_objects(prefix, *max_keys, None);
                    return Response::xml(200, list_xml(bucket, prefix, &objs, tr, 0));
                }
                let c = self.choices.choose(LIST_MENU.len());
                self.log.push(format!("LIST {nv}: {}", LIST_MENU[c]));
                match c {
                    0 => {
                        self.prev = advance_to;
                        self.max_failures_for_one_target = self.max_failures_for_one_target.max(self.failures_for_current);
                        self.failures_for_current = 0;
                        let (objs, tr) = self.list_objects(prefix, *max_keys, None);
                        Response::xml(200, list_xml(bucket, prefix, &objs, tr, 0))
                    }
                    1 => {
                        self.failures_for_current += 1;
                        let (objs, tr) = self.list_objects(prefix, *max_keys, None);
                        Response::xml(200, list_xml(bucket, prefix, &objs, tr, 0))
                    }
                    2 => {
                        self.failures_for_current += 1;
                        Response::xml(500, error_xml("InternalError"))
                    }
                    3 => {
                        self.failures_for_current += 1;
                        Response::xml(200, "<ListBucketResult><Contents><Key>".to_string())
                    }
                    _ => {
                        self.never = true;
                        self.never_kind = "listing";
                        self.failures_for_current += 1;
                        let (objs, tr) = self.list_objects(prefix, *max_keys, None);
                        Response::xml(200, list_xml(bucket, prefix, &objs, tr, 0))
                    }
                }
            }
            Request::Other { raw } => {
                self.unexpected.push(raw.clone());
                Response::new(400, vec![])
            }
        }
    }

    /// Any request that is not a frontier probe is answered from the bucket model as it is now.
    fn answer_truthfully(&mut self, req: &Request) -> Response {
        let fault = if self.root.discovery_faults && !self.newest_served && self.choices.log.len() < 40 { self.choices.choose(DISCOVERY_MENU.len()) } else { 0 };
        match req {
            Request::List { bucket, prefix, max_keys, .. } => {
                if bucket != BUCKET {
                    self.unexpected.push(format!("LIST in bucket {bucket}"));
                }
                match fault {
                    1 => return Response::xml(500, error_xml("InternalError")),
                    2 => return Response::xml(200, "<ListBucketResult><Contents><Key>".to_string()),
                    _ => {}
                }
                let (objs, tr) = self.list_objects(prefix, *max_keys, None);
                Response::xml(200, list_xml(bucket, prefix, &objs, tr, 0))
            }
            Request::Get { bucket, key, .. } => {
                match fault {
                    1 => return Response::xml(500, error_xml("InternalError")),
                    2 => return Response::xml(404, not_found_xml(key)),
                    _ => {}
                }
                match Self::parse_chunk_key(key) {
                    Some((v, s)) if bucket == BUCKET && s >= 1 && (s <= self.visible(v) || self.hole.map(|(hv, hs)| hv == v && s > hs && s <= hs + 2 && s <= 55).unwrap_or(false)) && *key == self.chunk_obj(v, s).key => self.serve_get(v, s),
                    _ => {
                        self.unexpected.push(format!("GET {key} (no such object)"));
                        Response::xml(404, not_found_xml(key))
                    }
                }
            }
            Request::Other { raw } => {
                self.unexpected.push(raw.clone());
                Response::new(400, vec![])
            }
        }
    }
}

#[derive(Clone, Debug)]
pub struct Observation {
    pub result: String,
    pub deliveries: Vec<Delivery>,
    pub requests: usize,
    pub post_requests: usize,
    pub unexpected: Vec<String>,
    pub never: bool,
    pub never_kind: &'static str,
    pub max_failures: usize,
    pub stop_sent_at: Option<usize>,
    pub dropped_at: Option<usize>,
    pub horizon_hit: bool,
    pub log: Vec<String>,
    pub choices: Choices,
    pub virtual_secs: f64,
    pub discovery_complete: bool,
}

impl Observation {
    fn fingerprint(&self) -> String {
        format!(
            "{}|{:?}|{}|{:?}|{:?}",
            self.result,
            self.deliveries.iter().map(|d| (d.volume, d.name.clone(), d.bytes_ok, d.time_ms)).collect::<Vec<_>>(),
            self.requests,
            self.choices.log,
            self.unexpected
        )
    }
}

/// One execution of the real poller for (root, choice prefix).
pub fn execute(sim: &Sim, root: &Root, choices: Choices) -> Observation {
    crate::s3sim::set_default_framing(crate::s3sim::FRAMINGS[root.framing % crate::s3sim::FRAMINGS.len()]);
    let rt = runtime();
    let base_ms = match root.regime {
        0 | 2 => 1_723_552_410_000 - 700_000,
        3 => chrono::Utc::now().timestamp_millis() + 3_600_000, // an hour in the future
        _ => chrono::Utc::now().timestamp_millis() + 5_000 - root.s0 as i64 * 10_000,
    };
    let (tx, rx) = channel::<(ChunkIdentifier, Chunk<'static>)>();
    let (stop_tx, stop_rx) = channel::<bool>();
    let (stats_tx, stats_rx) = channel::<PollStats>();
    let env = Arc::new(Mutex::new(Env {
        root: root.clone(),
        base_ms,
        choices,
        rx: Some(rx),
        stop_tx,
        deliveries: vec![],
        requests: vec![],
        gets_in_discovery: 0,
        post_requests: 0,
        prev: (root.v0, root.s0),
        discovery_over: false,
        newest_served: false,
        hole: None,
        never: false,
        never_kind: "",
        failures_for_current: 0,
        max_failures_for_one_target: 0,
        unexpected: vec![],
        stop_sent_at_delivery_count: None,
        horizon_hit: false,
        log: vec![],
        dropped_at: None,
    }));
    if root.stop_at == Some(-1) {
        env.lock().unwrap_or_else(|e| e.into_inner()).send_stop();
    }
    if root.drop_after == Some(0) {
        let mut e = env.lock().unwrap_or_else(|e| e.into_inner());
        e.rx = None;
        e.dropped_at = Some(0);
    }
    // the other runtime: makes one listing request (answered with an empty listing) and then stays
    // alive and idle on its own thread until the poll is over
    let mut other_runtime: Option<(std::sync::mpsc::Sender<()>, std::thread::JoinHandle<()>)> = None;
    if root.prior_runtime {
        crate::s3sim::set_keep_alive(true);
        sim.set_handler(Box::new(|req| match req {
            Request::List { bucket, prefix, .. } => Response::xml(200, list_xml(bucket, prefix, &[], false, 0)),
            _ => Response::xml(404, not_found_xml("none")),
        }));
        let (done_tx, done_rx) = channel::<()>();
        let (fin_tx, fin_rx) = channel::<()>();
        let h = std::thread::spawn(move || {
            let rt_a = tokio::runtime::Builder::new_current_thread().enable_all().build().expect("runtime");
            let _ = guarded(|| rt_a.block_on(nexrad_data::aws::realtime::list_chunks_in_volume(SITE, nexrad_data::aws::realtime::VolumeIndex::new(777), 10)).map(|v| v.len()).unwrap_or(0));
            let _ = done_tx.send(());
            let _ = fin_rx.recv();
            drop(rt_a);
        });
        let _ = done_rx.recv_timeout(std::time::Duration::from_secs(30));
        other_runtime = Some((fin_tx, h));
    }
    let e2 = env.clone();
    sim.set_handler(Box::new(move |req| e2.lock().unwrap_or_else(|e| e.into_inner()).handle(req)));
    let t0 = tokio::time::Instant::now();
    let mut virt = 0.0;
    let r = guarded(|| {
        rt.block_on(async {
            let start = tokio::time::Instant::now();
            let r = poll_chunks(SITE, tx, if root.with_stats { Some(stats_tx) } else { None }, stop_rx).await;
            (r.map_err(|e| format!("{:?}", e)), start.elapsed().as_secs_f64())
        })
    });
    let _ = t0;
    sim.clear_handler();
    if let Some((fin, h)) = other_runtime {
        let _ = fin.send(());
        let _ = h.join();
        crate::s3sim::set_keep_alive(false);
    }
    let result = match r {
        Caught::Panic(p) => format!("PANIC {p}"),
        Caught::Ret((Ok(()), v)) => {
            virt = v;
            "Ok".to_string()
        }
        Caught::Ret((Err(e), v)) => {
            virt = v;
            format!("Err({e})")
        }
    };
    drop(stats_rx);
    let mut e = env.lock().unwrap_or_else(|e| e.into_inner());
    e.drain();
    Observation {
        result,
        deliveries: e.deliveries.clone(),
        requests: e.requests.len(),
        post_requests: e.post_requests,
        unexpected: e.unexpected.clone(),
        never: e.never,
        never_kind: e.never_kind,
        max_failures: e.max_failures_for_one_target.max(e.failures_for_current),
        stop_sent_at: e.stop_sent_at_delivery_count,
        dropped_at: e.dropped_at,
        horizon_hit: e.horizon_hit,
        log: e.log.clone(),
        choices: std::mem::take(&mut e.choices),
        virtual_secs: virt,
        discovery_complete: e.discovery_over,
    }
}

fn parse_seq(name: &str) -> Option<usize> {
    name.split('-').nth(2).and_then(|s| s.parse().ok())
}

fn start_class(root: &Root) -> String {
    let v = match root.v0 {
        999 => "v=999",
        998 => "v=998",
        1 => "v=1",
        _ => "v=mid",
    };
    let s = match root.s0 {
        55 => "s=55",
        54 => "s=54",
        1 => "s=1",
        _ => "s=mid",
    };
    format!("{v}:{s}")
}

/// Judges one execution against the reference model. Returns outcome label.
pub fn judge(ctx: &Ctx, root: &Root, o: &Observation, st: &mut Stats) -> String {
    let wit = || json!({"root": root.json(), "choices": o.choices.taken(), "log": o.log, "result": o.result, "delivered": o.deliveries.iter().map(|d| format!("{}/{}", d.volume, d.name)).collect::<Vec<_>>()});
    let cls = start_class(root);
    let dev = o.choices.deviations();
    if let Some(d) = &o.choices.diverged {
        machinery(&format!("C18 replay divergence: {d} root {:?}", root));
    }
    if o.result.starts_with("PANIC") {
        ctx.fail(&format!("poll:panic:{}", panic_class(&o.result)), || format!("{:?}: {}", root, o.result), wit);
        return "panic".into();
    }
    if o.horizon_hit {
        ctx.fail("poll:request_horizon_hit", || format!("{:?}: more than {REQUEST_HORIZON} requests without finishing", root), wit);
        return "horizon".into();
    }
    if root.discovery_faults {
        // only panic / hang / fidelity are defined when discovery itself is disturbed
        for d in &o.deliveries {
            if !d.bytes_ok {
                ctx.fail("poll:payload_differs_from_uploaded_object:discovery_faults", || format!("{:?}: {}", root, d.name), wit);
            }
        }
        return if o.result == "Ok" { "discovery_fault_ok".into() } else { "discovery_fault_err".into() };
    }
    let env_base_regime = root.regime;
    let _ = env_base_regime;
    // ---- deliveries follow the successor relation
    let mut expected_prev: Option<(usize, usize)> = None;
    for (i, d) in o.deliveries.iter().enumerate() {
        let seq = parse_seq(&d.name).unwrap_or(0);
        if i == 0 {
            if (d.volume, seq) != (root.v0, root.s0) {
                ctx.fail(&format!("poll:first_delivery_not_newest_chunk:{cls}"), || format!("{:?}: first delivery {}/{}", root, d.volume, d.name), wit);
                return "first_wrong".into();
            }
        } else if let Some((pv, ps)) = expected_prev {
            let ok = if ps < 55 { d.volume == pv && seq == ps + 1 } else { d.volume == next_volume(pv) && seq == root.next_present };
            if !ok {
                let kind = if d.volume == pv && seq == ps {
                    "repeat"
                } else if d.volume == pv && seq > ps + 1 {
                    "gap"
                } else if ps == 55 {
                    "wrong_jump_after_end_chunk"
                } else {
                    "not_successor"
                };
                ctx.fail(
                    &format!("poll:{kind}:{}", if ps == 55 { "at_volume_boundary" } else { "within_volume" }),
                    || format!("{:?} choices {:?}: after {}/{} came {}/{}", root, o.choices.taken(), pv, ps, d.volume, seq),
                    wit,
                );
                return kind.into();
            }
        }
        if !d.bytes_ok {
            ctx.fail("poll:payload_differs_from_uploaded_object", || format!("{:?}: {}/{}", root, d.volume, d.name), wit);
        }
        expected_prev = Some((d.volume, seq));
    }
    // labels: key and upload time (regime 0 has a fixed base)
    if root.regime == 0 || root.regime == 2 {
        let base_ms = 1_723_552_410_000 - 700_000;
        for d in &o.deliveries {
            let seq = parse_seq(&d.name).unwrap_or(0);
            let exp_name = chunk_name(&volume_prefix(root, base_ms, d.volume), seq);
            if d.name != exp_name {
                ctx.fail("poll:delivered_label_is_not_the_object_key", || format!("{} vs {}", d.name, exp_name), wit);
            }
            let exp_time = if root.regime == 2 { None } else { Some(upload_ms(root, base_ms, d.volume, seq)) };
            if d.time_ms != exp_time {
                ctx.fail("poll:delivered_upload_time_wrong", || format!("{}: {:?} vs {:?}", d.name, d.time_ms, exp_time), wit);
            }
        }
    }
    if !o.unexpected.is_empty() {
        // requests for objects the bucket does not hold are an observation, not a verdict: the
        // property constrains what is delivered, not which requests are made
        st.count("executions_with_requests_for_absent_objects", 1);
    }
    // ---- termination reason
    let dropped = o.dropped_at.is_some();
    let budget_exhaustible = o.never;
    let outcome: String;
    if o.result == "Ok" {
        // must have been stopped
        match o.stop_sent_at {
            None => {
                ctx.fail("poll:returned_ok_without_stop_signal", || format!("{:?}", root), wit);
                outcome = "ok_without_stop".into();
            }
            Some(at) => {
                let after = o.deliveries.len().saturating_sub(at);
                if after > 1 {
                    ctx.fail("poll:more_than_one_delivery_after_stop", || format!("{:?} choices {:?}: {} deliveries after the stop signal", root, o.choices.taken(), after), wit);
                }
                outcome = "ok_after_stop".into();
            }
        }
        if dropped && o.deliveries.len() < root.deliveries_horizon && o.stop_sent_at.is_none() {
            ctx.fail("poll:ok_although_consumer_gone", || format!("{:?}", root), wit);
        }
    } else {
        // an error: allowed only if the consumer has gone, or a chunk never appeared within the budget
        if dropped {
            outcome = if o.result.contains("PollingAsyncError") { "err_consumer_gone".into() } else { "err_consumer_gone_other".into() };
        } else if budget_exhaustible {
            outcome = if o.never_kind == "listing" { "err_budget_listing".into() } else { "err_budget_download".into() };
        } else {
            ctx.fail(
                &format!("poll:gave_up_although_every_chunk_appeared_within_budget:max_failures={}", o.max_failures.min(9)),
                || format!("{:?} choices {:?}: {} (log {:?}; requests for absent objects: {:?})", root, o.choices.taken(), o.result, o.log, &o.unexpected[..o.unexpected.len().min(3)]),
                wit,
            );
            outcome = "err_unexpected".into();
        }
    }
    if dropped && o.result == "Ok" && o.stop_sent_at.is_none() {
        ctx.fail("poll:consumer_gone_not_reported", || format!("{:?}", root), wit);
    }
    // a dropped consumer must stop deliveries: nothing can be observed after the drop by construction
    st.outcome(&outcome);
    let _ = dev;
    outcome
}

pub fn roots(thorough: bool) -> Vec<Root> {
    let mut out = Vec::new();
    let base = Root { v0: 500, s0: 30, stop_at: None, drop_after: None, regime: 0, next_present: 1, with_stats: false, deliveries_horizon: 6, bound: if thorough { 2 } else { 1 }, discovery_faults: false, framing: 0, prior_runtime: false };
    let vs = [1usize, 500, 997, 998, 999];
    let ss = [1usize, 2, 30, 53, 54, 55];
    for &v0 in &vs {
        for &s0 in &ss {
            let boundary = s0 >= 53;
            // fault exploration from every start
            out.push(Root { v0, s0, with_stats: (v0 + s0) % 2 == 0, bound: if thorough { if boundary { 4 } else { 3 } } else if boundary { 2 } else { 1 }, ..base.clone() });
            // next-volume listing shows 2 or 3 chunks
            if s0 >= 53 {
                for np in [2usize, 3] {
                    out.push(Root { v0, s0, next_present: np, bound: if thorough { 3 } else { 2 }, ..base.clone() });
                }
            }
            // stop signal at every point
            let stops: Vec<i64> = if thorough || boundary || v0 == 500 { (-1..=9).collect() } else { vec![-1, 0, 1, 3] };
            for k in stops {
                out.push(Root { v0, s0, stop_at: Some(k), bound: if thorough { 2 } else { 1 }, ..base.clone() });
            }
            // consumer dropped after k deliveries
            let drops: Vec<usize> = if thorough || boundary { (0..=5).collect() } else { vec![0, 1, 3] };
            for k in drops {
                out.push(Root { v0, s0, drop_after: Some(k), bound: if thorough { 2 } else { 1 }, with_stats: k % 2 == 1, ..base.clone() });
            }
            // timestamp regime: upload times around now (wait-estimate path runs)
            out.push(Root { v0, s0, regime: 1, bound: if thorough { 1 } else { 0 }, with_stats: true, ..base.clone() });
        }
    }
    // long horizon: twelve deliveries exercise the timing-statistics path (10 chunks) with stats on
    out.push(Root { v0: 998, s0: 50, deliveries_horizon: 14, with_stats: true, bound: 1, ..base.clone() });
    out.push(Root { v0: 999, s0: 48, deliveries_horizon: 14, with_stats: true, regime: 1, bound: 0, ..base.clone() });
    // other timestamp regimes: objects without Last-Modified; upload times an hour in the future
    for (v0, s0) in [(500usize, 30usize), (999, 54), (1, 2)] {
        for regime in [2u8, 3] {
            out.push(Root { v0, s0, regime, bound: 1, with_stats: regime == 3, deliveries_horizon: if regime == 2 { 14 } else { 6 }, ..base.clone() });
        }
    }
    // long fault-free (and single-fault) runs inside one volume, with and without the statistics
    // channel: the timing window fills (11th sample of one key), statistics are flushed every 11
    // chunks, counters grow past ten
    for with_stats in [false, true] {
        out.push(Root { v0: 500, s0: 2, deliveries_horizon: 34, with_stats, bound: if thorough { 1 } else { 0 }, ..base.clone() });
        out.push(Root { v0: 2, s0: 20, deliveries_horizon: 30, with_stats, regime: 1, bound: 0, ..base.clone() });
    }
    // two volume boundaries in one run (998/54 -> 999 -> 1), 62 deliveries
    for with_stats in [false, true] {
        out.push(Root { v0: 998, s0: 54, deliveries_horizon: 62, with_stats, bound: 0, next_present: if with_stats { 2 } else { 1 }, ..base.clone() });
    }
    // body framing: chunked transfer encoding (1000- and 7-byte chunks) and close-delimited bodies
    for framing in 1..crate::s3sim::FRAMINGS.len() {
        for (v0, s0) in [(500usize, 30usize), (999, 54)] {
            out.push(Root { v0, s0, framing, bound: 1, with_stats: framing % 2 == 1, ..base.clone() });
        }
    }
    // keep-alive server and a second, idle runtime that has already talked to the endpoint
    for (v0, s0) in [(500usize, 30usize), (999, 54)] {
        out.push(Root { v0, s0, prior_runtime: true, bound: 1, ..base.clone() });
    }
    // discovery faults (only panic / hang / fidelity judged)
    for (v0, s0) in [(500usize, 30usize), (999, 55), (1, 1)] {
        out.push(Root { v0, s0, discovery_faults: true, bound: 1, ..base.clone() });
    }
    out
}

fn run_roots(ctx: &'static Ctx, sim: &Sim, list: &[(usize, Root)], st: &mut Stats) -> (u64, u64, u64) {
    let mut executions = 0u64;
    let mut points = 0u64;
    let mut replays_identical = 0u64;
    for (ri, root) in list {
        let mut root_execs = 0u64;
        let mut first_fp: Option<String> = None;
        let es = explore(
            root.bound,
            |ch| {
                begin_case(CaseId { a: *ri as u64, b: root_execs, c: 0 });
                let o = execute(sim, root, ch);
                end_case();
                root_execs += 1;
                if first_fp.is_none() {
                    first_fp = Some(o.fingerprint());
                }
                // stash the observation for the visitor through the choices' owner: re-judge here
                let outcome = judge(ctx, root, &o, st);
                st.eval();
                st.dim("deviations", o.choices.deviations());
                st.dim("start", start_class(root));
                if o.choices.deviations() >= 1 || o.deliveries.iter().any(|d| d.volume != root.v0) {
                    st.nontrivial(format!("{:?}|{:?}", root, o.choices.taken()).as_bytes());
                }
                // reachability obligations
                if o.deliveries.windows(2).any(|w| w[0].volume == 999 && w[1].volume == 1) {
                    st.count("reach_wrap_999_to_1", 1);
                }
                if o.result == "Ok" && o.max_failures == 1 {
                    st.count("reach_success_on_2nd_attempt", 1);
                }
                if o.result == "Ok" && o.max_failures >= 2 {
                    st.count("reach_success_on_3rd_attempt", 1);
                }
                if root.next_present == 3 && o.deliveries.iter().any(|d| d.volume == next_volume(root.v0)) {
                    st.count("reach_jump_into_volume_with_3_present", 1);
                }
                if o.virtual_secs > 100.0 {
                    st.count("reach_virtual_time_over_100s", 1);
                }
                if root_execs == 2 && st.samples.len() < 6 {
                    st.sample(6, || json!({"root": root.json(), "choices": o.choices.taken(), "log": o.log, "delivered": o.deliveries.iter().map(|d| format!("{}/{}", d.volume, d.name)).collect::<Vec<_>>(), "result": o.result, "requests": o.requests, "virtual_seconds": o.virtual_secs, "outcome": outcome}));
                }
                o.choices
            },
            |_| {},
        );
        executions += es.executions;
        points += es.choice_points;
        // determinism: replay the last explored schedule of this root twice
        let a = execute(sim, root, Choices::new(vec![], vec![]));
        let b = execute(sim, root, Choices::new(vec![], vec![]));
        if root.regime == 0 || root.regime == 2 {
            let f0 = first_fp.clone().unwrap_or_default();
            if a.fingerprint() != b.fingerprint() || a.fingerprint() != f0 {
                // the harness is deterministic for regime 0 (the unchanged tree replays identically for
                // every root), so a difference means the library keeps state between poll_chunks calls
                ctx.fail(
                    "poll:same_schedule_different_observations_in_one_process",
                    || format!("root {:?}: the default schedule executed three times in one process gave different observations:\n first  {}\n second {}\n third  {}", root, f0.chars().take(300).collect::<String>(), a.fingerprint().chars().take(300).collect::<String>(), b.fingerprint().chars().take(300).collect::<String>()),
                    || json!({"root": root.json(), "choices": [], "note": "run the default schedule twice in one process"}),
                );
            } else {
                replays_identical += 1;
            }
        }
    }
    (executions, points, replays_identical)
}

pub fn worker(ctx: &'static Ctx, i: usize, n: usize) {
    start_watchdog(Duration::from_secs(60), 16 << 30, move |kind, id, detail| {
        println!("WORKER_RESULT {}", json!({"stats": Stats::new().to_json(), "fails": [{"signature": format!("poll:{kind}:watchdog"), "detail": detail, "witness": {"case": id.map(|c| [c.a, c.b, c.c])}, "count": 1}], "executions": 0, "points": 0, "replays": 0}));
    });
    let sim = Sim::start();
    let all = roots(ctx.tier.thorough());
    // heaviest roots first, round-robin
    let mut idx: Vec<(usize, Root)> = all.into_iter().enumerate().collect();
    idx.sort_by_key(|(_, r)| std::cmp::Reverse(r.bound * 100 + r.deliveries_horizon));
    let mine: Vec<(usize, Root)> = idx.into_iter().enumerate().filter(|(k, _)| k % n == i).map(|(_, r)| r).collect();
    // pass 1: every log macro live; pass 2 (reported): the library's default, no logging
    let single = std::env::var("VERIF_SINGLE_PASS").is_ok();
    for level in if single { vec![] } else { preliminary_log_levels(ctx.tier) } {
        set_logging_level(level);
        set_source_env_vars(level == log::LevelFilter::Debug);
        break_stderr(level == log::LevelFilter::Trace && variant_name().is_none());
        if level == log::LevelFilter::Trace {
            crate::clock::set_global_now_ms(PASS1_CLOCK_MS);
        } else {
            crate::clock::set_global_offset_ns(0);
        }
        let mut scratch = Stats::new();
        // the logging pass explores every root with at most one deviation (the HTTP stack's own
        // trace output makes this pass several times slower per execution)
        let reduced: Vec<(usize, Root)> = mine.iter().map(|(i, r)| (*i, Root { bound: r.bound.min(1), ..r.clone() })).collect();
        let _ = run_roots(ctx, &sim, &reduced, &mut scratch);
        ctx.mark_pass_boundary(&level.to_string().to_lowercase());
    }
    set_logging(false);
    break_stderr(false);
    set_source_env_vars(false);
    crate::clock::set_global_offset_ns(0);
    let mut st = Stats::new();
    let (ex, pts, rep) = run_roots(ctx, &sim, &mine, &mut st);
    if crate::s3sim::HANDLER_PANICS.load(std::sync::atomic::Ordering::SeqCst) > 0 {
        crate::core::elog!("MACHINERY: simulator handler panicked in worker {i}");
        std::process::exit(3);
    }
    println!("WORKER_RESULT {}", json!({"stats": st.to_json(), "fails": ctx.export_fails(), "executions": ex, "points": pts, "replays": rep}));
}

pub fn run(ctx: &'static Ctx) -> (&'static str, Value, Vec<&'static str>) {
    let n = 14;
    let results = run_workers("C18", ctx.tier, n);
    let mut stats = Stats::new();
    let (mut ex, mut pts, mut rep) = (0u64, 0u64, 0u64);
    for r in &results {
        stats = stats.merge(Stats::from_json(&r["stats"]));
        ctx.import_fails(&r["fails"]);
        ex += r["executions"].as_u64().unwrap_or(0);
        pts += r["points"].as_u64().unwrap_or(0);
        rep += r["replays"].as_u64().unwrap_or(0);
    }
    // reachability obligations: silence means nothing if these were never reached
    let need = ["reach_wrap_999_to_1", "reach_success_on_2nd_attempt", "reach_jump_into_volume_with_3_present", "reach_virtual_time_over_100s"];
    let outcomes_needed = ["ok_after_stop", "err_budget_download", "err_budget_listing", "err_consumer_gone"];
    let mut missing = Vec::new();
    for k in need {
        if stats.counters.get(k).copied().unwrap_or(0) == 0 {
            missing.push(k.to_string());
        }
    }
    for k in outcomes_needed {
        if stats.outcomes.get(k).copied().unwrap_or(0) == 0 {
            missing.push(k.to_string());
        }
    }
    if !missing.is_empty() && ctx.failure_count() == 0 {
        machinery(&format!("C18 reachability obligations not met: {:?}", missing));
    }
    let all = roots(ctx.tier.thorough());
    let mut cov = stats.coverage(
        "roots = start (volume in {1,500,997,998,999} x sequence in {1,2,30,53,54,55}) crossed with: fault exploration, next-volume listing showing 2/3 chunks, stop signal before polling / while serving post-discovery request #k (k = 0..9), consumer dropped after k deliveries (0..5), upload times around now, long horizon, discovery faults. Under each root the E1 explorer enumerates ALL executions with <= bound deviations, where every post-discovery request is a choice point: GET menu {present, 404 once, 500 once, transfer cut half-way once, never}, next-volume LIST menu {present, empty once, 500 once, garbled once, never}. Each execution runs the real poll_chunks to completion on a paused tokio clock. states = complete executions, transitions = environment choice points answered. non-trivial = >= 1 deviation or a volume boundary crossed; distinct by (root, choice list)",
        true,
        json!({"roots": all.len(), "deliveries_horizon": 6, "request_horizon": REQUEST_HORIZON, "max_deviation_bound": all.iter().map(|r| r.bound).max(), "workers": n}),
    );
    cov["states"] = json!(ex);
    cov["transitions"] = json!(pts);
    cov["traces_validated_against_impl"] = json!(ex);
    cov["determinism_replays_identical"] = json!(rep);
    (
        "model_checking",
        cov,
        vec![
            "verif-hooks endpoint override; simulator HTTP framing; tokio paused clock (auto-advance)",
            "the poller reads the stop flag at one program point per iteration, so every interleaving of an external stop/drop equals 'signal lands while request #k is served' for some k",
            "bucket: 500 populated directories behind the start volume, the next directories empty (the property's histories); discovery-fault roots are judged for panic/hang/fidelity only",
            "Utc::now() is not owned: it only feeds the wait estimate (regime 1 exercises it)",
        ],
    )
}

pub fn replay(ctx: &'static Ctx, case: &Value) {
    let root = Root::from_json(&case["root"]);
    let prefix: Vec<u8> = case["choices"].as_array().map(|a| a.iter().map(|x| x.as_u64().unwrap_or(0) as u8).collect()).unwrap_or_default();
    let sim = Sim::start();
    let o = execute(&sim, &root, Choices::new(prefix, vec![]));
    let mut st = Stats::new();
    let outcome = judge(ctx, &root, &o, &mut st);
    println!("replay C18 root {:?}\n  log {:?}\n  delivered {:?}\n  result {} requests {} -> {outcome}", root, o.log, o.deliveries.iter().map(|d| format!("{}/{}", d.volume, d.name)).collect::<Vec<_>>(), o.result, o.requests);
}
