//! C06 — volume, record and chunk handling is total on arbitrary bytes.

use crate::core::*;
use crate::enc::*;
use crate::guard::*;
#[cfg(feature = "f-decstack")]
use crate::props::c01;
#[cfg(any(feature = "full", feature = "v-aws"))]
use nexrad_data::aws::realtime::Chunk;
use nexrad_data::volume::{split_compressed_records, File, Record};
use rayon::prelude::*;
use serde_json::{json, Value};
use std::time::Duration;

pub const OPS: [&str; 15] = [
    "File::records",
    "File::header",
    "File::scan",
    "File::debug",
    "split_compressed_records",
    "Record::data",
    "Record::compressed",
    "Record::decompress",
    "Record::messages",
    "Record::debug",
    "Chunk::new",
    "Chunk::data",
    "Chunk::debug",
    "Chunk::inner_ops",
    "records_of_file::each_record_ops",
];

fn len_class(n: usize) -> &'static str {
    match n {
        0 => "len=0",
        1..=2 => "len<3",
        3..=5 => "len<6",
        6..=23 => "len<24",
        24..=27 => "len<28",
        _ => "len>=28",
    }
}

fn record_ops(r: &Record) -> usize {
    let mut n = r.data().len();
    n += r.compressed() as usize;
    #[cfg(feature = "f-bzip2")]
    {
        if let Ok(d) = r.decompress() {
            n += d.data().len();
            n += d.compressed() as usize;
            #[cfg(feature = "f-decstack")]
            let _ = d.messages();
            let _ = debug_all(&d);
        }
    }
    #[cfg(feature = "f-decstack")]
    let _ = r.messages().map(|m| m.len());
    n += debug_all(r);
    n
}

/// Runs every operation on `bytes`; each in its own catch_unwind so that one panic does not hide
/// another. Returns number of panicking operations.
pub fn check_bytes(ctx: &Ctx, bytes: &[u8], origin: &str, st: &mut Stats) -> usize {
    let mut panics = 0;
    let cls = len_class(bytes.len());
    let wit = |op: &str| json!({"op": op, "bytes_hex": hex(bytes), "origin": origin});
    let mut one = |op: &'static str, f: &mut dyn FnMut() -> usize| {
        st.evaluations += 1;
        match guarded(|| f()) {
            Caught::Ret(_) => {}
            Caught::Panic(p) => {
                panics += 1;
                ctx.fail(&format!("panic:{op}:{cls}:{}", panic_class(&p)), || format!("{p} ({} input bytes; {origin})", bytes.len()), || wit(op));
            }
        }
    };
    // allocation capacity is not part of the value: odd-length inputs are wrapped in vectors with
    // spare capacity, even-length ones in exactly sized vectors
    let owned = |b: &[u8]| -> Vec<u8> {
        let mut v = Vec::with_capacity(b.len() + if b.len() % 2 == 1 { 37 } else { 0 });
        v.extend_from_slice(b);
        v
    };
    let file = File::new(owned(bytes));
    one("File::records", &mut || file.records().len());
    #[cfg(feature = "f-serde")]
    one("File::header", &mut || file.header().is_ok() as usize);
    #[cfg(feature = "f-decstack")]
    one("File::scan", &mut || file.scan().map(|s| s.sweeps().len()).unwrap_or(0));
    one("File::debug", &mut || debug_all(&file));
    one("split_compressed_records", &mut || split_compressed_records(bytes).len());
    let rec = Record::new(owned(bytes));
    one("Record::data", &mut || rec.data().len());
    one("Record::compressed", &mut || rec.compressed() as usize);
    #[cfg(feature = "f-bzip2")]
    one("Record::decompress", &mut || rec.decompress().map(|r| r.data().len()).unwrap_or(0));
    #[cfg(feature = "f-decstack")]
    one("Record::messages", &mut || rec.messages().map(|m| m.len()).unwrap_or(0));
    one("Record::debug", &mut || debug_all(&rec));
    let slice_rec = Record::from_slice(bytes);
    one("Record::debug", &mut || record_ops(&slice_rec));
    #[cfg(any(feature = "full", feature = "v-aws"))]
    one("Chunk::new", &mut || Chunk::new(owned(bytes)).is_ok() as usize);
    #[cfg(any(feature = "full", feature = "v-aws"))]
    if let Caught::Ret(Ok(ch)) = guarded(|| Chunk::new(owned(bytes))) {
        one("Chunk::data", &mut || ch.data().len());
        one("Chunk::debug", &mut || debug_all(&ch));
        one("Chunk::inner_ops", &mut || match &ch {
            Chunk::Start(f) => {
                #[allow(unused_mut)]
                let mut n = f.records().iter().map(record_ops).sum::<usize>();
                #[cfg(feature = "f-decstack")]
                {
                    n += f.header().is_ok() as usize;
                    n += f.scan().is_ok() as usize;
                }
                n
            }
            Chunk::IntermediateOrEnd(r) => record_ops(r),
        });
    }
    // every record the file yields
    if let Caught::Ret(rs) = guarded(|| file.records()) {
        one("records_of_file::each_record_ops", &mut || rs.iter().map(record_ops).sum());
        // whatever the list is, it never invents bytes
        let total: usize = rs.iter().map(|r| r.data().len()).sum();
        if total > bytes.len().saturating_sub(24) {
            ctx.fail("records:more_bytes_than_file", || format!("{} record bytes from a {}-byte file", total, bytes.len()), || wit("File::records"));
        }
    }
    st.outcome(if panics == 0 { "no_panic" } else { "panic" });
    panics
}

fn family(len: usize, fam: usize) -> Vec<u8> {
    let mut v = vec![0u8; len];
    let put = |v: &mut Vec<u8>, off: usize, b: &[u8]| {
        for (i, x) in b.iter().enumerate() {
            if off + i < v.len() {
                v[off + i] = *x;
            }
        }
    };
    match fam {
        0 => {}
        1 => put(&mut v, 0, b"AR2V0006.001"),
        2 => put(&mut v, 4, b"BZ"),
        3 => put(&mut v, 0, &((len as i32 - 4).max(0)).to_be_bytes()),
        4 => put(&mut v, 0, &((len as i32 - 3).max(0)).to_be_bytes()),
        5 => put(&mut v, 0, &(len as i32 + 1).to_be_bytes()),
        6 => put(&mut v, 0, &0x7FFF_FFFFi32.to_be_bytes()),
        7 => put(&mut v, 0, &(-(len as i32)).to_be_bytes()),
        8 => put(&mut v, 0, &i32::MIN.to_be_bytes()),
        9 => {
            // volume header followed by each of the prefix kinds
            put(&mut v, 0, b"AR2V0006.001");
            put(&mut v, 24, &((len as i32 - 28).max(0)).to_be_bytes());
            put(&mut v, 28, b"BZh9");
        }
        10 => {
            put(&mut v, 0, b"AR2V0006.001");
            put(&mut v, 24, &(len as i32).to_be_bytes());
        }
        11 => {
            put(&mut v, 0, b"AR2V0006.001");
            put(&mut v, 24, &(-(len as i32 - 27)).to_be_bytes());
        }
        _ => {
            for (i, b) in v.iter_mut().enumerate() {
                *b = (i * 37 + 11) as u8;
            }
        }
    }
    v
}

pub const FAMILIES: usize = 13;

pub fn run(ctx: &'static Ctx) -> (&'static str, Value, Vec<&'static str>) {
    let thorough = ctx.tier.thorough();
    {
        let ctxw: &'static Ctx = ctx;
        start_watchdog(Duration::from_secs(30), 24 << 30, move |kind, id, detail| {
            ctxw.fail(&format!("{kind}:watchdog"), || detail.clone(), || json!({"watchdog": kind, "case": id.map(|i| [i.a, i.b, i.c])}));
            let _ = ctxw.finish("exploration", json!({"evaluations": CASES_STARTED.load(std::sync::atomic::Ordering::Relaxed), "distinct_nontrivial": 0, "rule": "aborted by watchdog", "samples": []}), vec![]);
        });
    }
    // (1) every length 0..=64 x content family
    let mut s1 = Stats::new();
    for len in 0..=64usize {
        for fam in 0..FAMILIES {
            let b = family(len, fam);
            begin_case(CaseId { a: 1, b: len as u64, c: fam as u64 });
            check_bytes(ctx, &b, &format!("length {len} family {fam}"), &mut s1);
            end_case();
            s1.nontrivial(format!("f{len}/{fam}").as_bytes());
            s1.dim("len_class", len_class(len));
        }
    }
    // (1b) every literal of the source under test at the start of a file (alone, followed by a
    // well-formed size-prefixed record, and after a valid header where a record would begin)
    for (k, lit) in source_dictionary().iter().enumerate() {
        let rec = record_raw(&[1, 2, 3, 4, 5, 6, 7], k % 2 == 1);
        let mut a = lit.clone();
        a.resize(24.max(lit.len()), b'.');
        let mut b = a.clone();
        b.extend_from_slice(&rec);
        b.extend_from_slice(&rec);
        let mut c = family(64, 1);
        for (i, x) in lit.iter().enumerate() {
            if 24 + i < c.len() {
                c[24 + i] = *x;
            }
        }
        for (j, bytes) in [lit.clone(), a, b, c].iter().enumerate() {
            begin_case(CaseId { a: 7, b: k as u64, c: j as u64 });
            check_bytes(ctx, bytes, &format!("source literal #{k} placement {j}"), &mut s1);
            end_case();
        }
        s1.count("source_literal_inputs", 4);
        // every prefix of the literal continued by a multi-byte character (2-, 3- and 4-byte UTF-8),
        // so that valid non-ASCII text straddles every byte offset behind a recognised prefix
        if lit.len() <= 12 && lit.is_ascii() {
            for cut in 1..=lit.len() {
                for mb in ["é", "€", "😀"] {
                    let mut v = lit[..cut].to_vec();
                    v.extend_from_slice(mb.as_bytes());
                    v.extend_from_slice(mb.as_bytes());
                    v.resize(24.max(v.len()), b'0');
                    v.extend_from_slice(&rec);
                    begin_case(CaseId { a: 8, b: k as u64, c: cut as u64 });
                    check_bytes(ctx, &v, &format!("source literal #{k} cut at {cut} + multi-byte text"), &mut s1);
                    end_case();
                    s1.count("source_literal_multibyte_inputs", 1);
                }
            }
        }
    }
    // (2) all strings of length <= 2; all strings of length 3..=6 (thorough 7) over an 8-symbol alphabet
    let s2: Stats = (0u32..=65536 + 256)
        .into_par_iter()
        .fold(Stats::new, |mut st, i| {
            let b: Vec<u8> = if i == 0 {
                vec![]
            } else if i <= 256 {
                vec![(i - 1) as u8]
            } else {
                let x = i - 257;
                vec![(x >> 8) as u8, x as u8]
            };
            begin_case(CaseId { a: 2, b: i as u64, c: 0 });
            check_bytes(ctx, &b, "all strings of length <= 2", &mut st);
            end_case();
            st.nontrivial(&[b'2', (i >> 16) as u8, (i >> 8) as u8, i as u8]);
            st
        })
        .reduce(Stats::new, Stats::merge);
    let alpha: [u8; 8] = [0x00, 0x04, 0xFF, b'A', b'R', b'2', b'B', b'Z'];
    let maxlen = if thorough { 8 } else { 6 };
    let mut jobs = Vec::new();
    for len in 3..=maxlen {
        let total = 8u64.pow(len as u32);
        let mut s = 0;
        while s < total {
            jobs.push((len, s));
            s += 2048;
        }
    }
    let s3: Stats = jobs
        .par_iter()
        .fold(Stats::new, |mut st, &(len, start)| {
            let total = 8u64.pow(len as u32);
            let mut buf = vec![0u8; len];
            begin_case(CaseId { a: 3, b: len as u64, c: start });
            for idx in start..(start + 2048).min(total) {
                let mut x = idx;
                for b in buf.iter_mut() {
                    *b = alpha[(x % 8) as usize];
                    x /= 8;
                }
                check_bytes(ctx, &buf, "strings over {00,04,FF,A,R,2,B,Z}", &mut st);
            }
            end_case();
            st.count("alphabet_strings", (start + 2048).min(total) - start);
            st.nontrivial(format!("w{len}/{start}").as_bytes());
            st
        })
        .reduce(Stats::new, Stats::merge);

    // (3) every truncation point of valid volumes and chunks
    let mut containers: Vec<(String, Vec<u8>)> = Vec::new();
    #[cfg(feature = "f-decstack")]
    {
        let vol_cases = c01::cases(false);
        let picks: Vec<usize> = (0..12).map(|k| (k * 173 + 5) % vol_cases.len()).collect();
        for (k, i) in picks.iter().enumerate() {
            let c = &vol_cases[*i];
            if c.gates > 64 {
                continue;
            }
            let bytes = c01::volume_bytes(c);
            containers.push((format!("volume#{k}"), bytes));
        }
    }
    #[cfg(not(feature = "f-decstack"))]
    {
        // build-configuration variants have no volume generator (it needs the model conversion):
        // two- and three-record volumes built from the reference message encoder instead
        for k in 0..3usize {
            let recs: Vec<Vec<u8>> = (0..2 + k).map(|r| record_bz(&(0..2).flat_map(|i| crate::props::c03::message_bytes([7usize, 0, 8][(r + k) % 3], i)).collect::<Vec<u8>>(), 9, r % 2 == 1)).collect();
            containers.push((format!("volume#{k}"), volume(&VolHeader::basic(), &recs)));
        }
    }
    // chunks: start chunk = header + one record; intermediate = one record
    for (k, sym) in [7usize, 8, 0, 1].iter().enumerate() {
        let payload: Vec<u8> = (0..3).flat_map(|i| crate::props::c03::message_bytes(*sym, i)).collect();
        let rec = record_bz(&payload, 9, k % 2 == 1);
        containers.push((format!("chunk_intermediate#{k}"), rec.clone()));
        containers.push((format!("chunk_start#{k}"), volume(&VolHeader::basic(), &[rec])));
    }
    // (3b) structurally valid but out-of-spec volumes: counts beyond every documented maximum
    // (more than 720 radials in one sweep, more than 255 sweeps, 70 000 radials, empty records)
    #[allow(unused_mut)]
    let mut s4b = Stats::new();
    #[cfg(feature = "f-decstack")]
    {
        let mk = |runs: Vec<(u8, u16)>, per_record: usize, level: u32, moments: u8| {
            let total: usize = runs.iter().map(|r| r.1 as usize).sum();
            c01::Case { runs, splits: (1..total).filter(|k| per_record > 0 && k % per_record == 0).collect(), meta: Some((1, 0)), moments, gates: 2, vol: 0, level, status_mode: 0 }
        };
        let extremes: Vec<c01::Case> = vec![
            mk(vec![(1, 721)], 120, 0, 1),
            mk(vec![(1, 721)], 0, 9, 1),
            mk(vec![(1, 722)], 721, 9, 0),
            mk(vec![(1, 900)], 120, 9, 1),
            mk(vec![(1, 360), (1, 500)], 120, 9, 1),
            mk(vec![(3, 1441)], 0, 0, 0),
            mk(vec![(1, 40000), (1, 30000)], 5000, 9, 0),
            mk((0..300).map(|i| (1 + (i % 2) as u8, 2u16)).collect(), 7, 9, 1),
            mk((0..600).map(|i| ((i % 256) as u8, 1u16)).collect(), 0, 9, 0),
        ];
        for (i, c) in extremes.iter().enumerate() {
            let bytes = c01::volume_bytes(c);
            begin_case(CaseId { a: 6, b: i as u64, c: 0 });
            check_bytes(ctx, &bytes, &format!("valid structure, out-of-spec counts #{i}: runs {:?}..", &c.runs[..c.runs.len().min(3)]), &mut s4b);
            end_case();
            s4b.nontrivial(format!("x{i}").as_bytes());
            s4b.count("out_of_spec_valid_volumes", 1);
        }
    }
    let mut trunc_jobs: Vec<(usize, usize)> = Vec::new();
    for (ci, (_, b)) in containers.iter().enumerate() {
        let step = if thorough || b.len() < 1500 { 1 } else { 3 };
        let mut t = 0;
        while t < b.len() {
            trunc_jobs.push((ci, t));
            t += if t < 200 { 1 } else { step };
        }
    }
    let s4: Stats = trunc_jobs
        .par_iter()
        .fold(Stats::new, |mut st, &(ci, t)| {
            begin_case(CaseId { a: 4, b: ci as u64, c: t as u64 });
            check_bytes(ctx, &containers[ci].1[..t], &format!("{} truncated at {t}", containers[ci].0), &mut st);
            end_case();
            st.nontrivial(format!("t{ci}/{t}").as_bytes());
            st.count("truncations", 1);
            st
        })
        .reduce(Stats::new, Stats::merge);

    // (4) every byte position x {00, FF, bit flips} of small bzip2 records (incl. size prefix)
    let mut corrupt_jobs: Vec<(usize, usize, u8)> = Vec::new();
    let small: Vec<Vec<u8>> = containers.iter().filter(|(n, _)| n.starts_with("chunk")).map(|(_, b)| b.clone()).collect();
    for (ci, b) in small.iter().enumerate() {
        for p in 0..b.len() {
            for m in 0..if thorough { 10 } else { 4 } {
                corrupt_jobs.push((ci, p, m));
            }
        }
    }
    let s5: Stats = corrupt_jobs
        .par_iter()
        .fold(Stats::new, |mut st, &(ci, p, m)| {
            let mut b = small[ci].clone();
            b[p] = match m {
                0 => 0x00,
                1 => 0xFF,
                2 => b[p] ^ 0x01,
                3 => b[p] ^ 0x80,
                k => b[p] ^ (1 << (k - 3)),
            };
            begin_case(CaseId { a: 5, b: ci as u64, c: (p * 16 + m as usize) as u64 });
            check_bytes(ctx, &b, &format!("corruption of container {ci} at {p} mode {m}"), &mut st);
            end_case();
            st.nontrivial(format!("c{ci}/{p}/{m}").as_bytes());
            st.count("corruptions", 1);
            st
        })
        .reduce(Stats::new, Stats::merge);
    // history: the whole operation set on different inputs back to back on one fresh thread
    let hin: Vec<Vec<u8>> = vec![containers[0].1.clone(), containers[0].1[..40.min(containers[0].1.len())].to_vec(), vec![], family(29, 9), small[0].clone(), { let mut x = small[1].clone(); let n = x.len(); x.truncate(n * 2 / 3); x }, family(64, 6)];
    let sh = history_check(
        ctx,
        "container_operations",
        hin.len(),
        3,
        |i| {
            let mut st = Stats::new();
            let n = check_bytes(ctx, &hin[i], "history", &mut st);
            let f = File::new(hin[i].clone());
            #[cfg(feature = "f-decstack")]
            let r = guarded(|| (f.records().len(), f.scan().is_ok(), Record::new(hin[i].clone()).decompress().map(|d| d.data().len()).ok()));
            #[cfg(not(feature = "f-decstack"))]
            let r = guarded(|| (f.records().len(), Record::new(hin[i].clone()).compressed()));
            format!("{n}|{:?}", r)
        },
        |i| format!("input#{i}({} bytes)", hin[i].len()),
    );
    let mut stats = s1.merge(s2).merge(s3).merge(s4).merge(s4b).merge(s5).merge(sh);
    stats.sample(3, || json!({"origin": "length 5 family 2 ('BZ' at 4..6)", "bytes_hex": hex(&family(5, 2))}));
    stats.sample(3, || json!({"origin": "volume truncated", "container": containers[0].0, "len": containers[0].1.len()}));
    let cov = stats.coverage(
        "every length 0..=64 x 13 content families (zeros, AR2V header, 'BZ' at 4..6, size prefixes len-4/len-3/len+1/0x7FFFFFFF/negative/i32::MIN, header+prefix variants, ramp); all byte strings of length <=2; all strings of length 3..=6 (thorough 7) over {00,04,FF,A,R,2,B,Z}; every truncation point of 12 valid volumes and 8 valid chunks; nine structurally valid volumes whose counts exceed every documented maximum (721..70 000 radials in a sweep, 300 and 600 sweeps, empty records); every byte position x {00,FF,bit flips} of 8 small containers. Each input through File::{records,header,scan,Debug}, split_compressed_records, Record::{data,compressed,decompress,messages,Debug} (owned and borrowed), Chunk::{new,data,Debug} and the same operations on whatever the chunk / record list yields. Oracle: returns (no panic), terminates",
        true,
        json!({"ops": OPS, "max_len": maxlen}),
    );
    (
        "exploration",
        cov,
        vec!["termination guarded by a 30 s per-batch watchdog and an RSS cap", "overflow-checks on"],
    )
}

pub fn replay(ctx: &'static Ctx, case: &Value) {
    let bytes = unhex(case["bytes_hex"].as_str().unwrap_or(""));
    let mut st = Stats::new();
    let n = check_bytes(ctx, &bytes, "replay", &mut st);
    println!("replay C06 on {} bytes: {n} panicking operations", bytes.len());
}
