//! C17 — S3 listing and download return exactly what the bucket holds.
//! E4 + fault enumeration: bucket contents x request x every answer of a response menu.

use crate::core::*;
use crate::enc::*;
use crate::s3sim::*;
use chrono::NaiveDate;
use nexrad_data::aws::archive::{self, Identifier};
use nexrad_data::aws::realtime::{self, Chunk, ChunkIdentifier, VolumeIndex};
use serde_json::{json, Value};
use std::sync::{Arc, Mutex};

const ARCHIVE_BUCKET: &str = "noaa-nexrad-level2";
const REALTIME_BUCKET: &str = "unidata-nexrad-level2-chunks";
const T0: i64 = 1_723_552_410_000; // 2024-08-13T12:33:30Z

pub const LIST_FAULTS: [&str; 12] = ["normal", "is_truncated_true", "size_abc", "size_minus_1", "size_2^64", "garbled_xml", "order_size_first", "order_key_last", "empty_body", "enc_pretty_printed", "enc_numeric_char_refs", "enc_owner_elements_pretty"];
pub const NAME_ALPHABET: [&str; 10] = ["KDMX20240813_123330_V06", "KDMX20240813_1233&30", "KDMX20240813_<123330>", "KDMX20240813_\"q\"'a'", "KDMX20240813_é", "KDMX20240813_日本", "LONG", "sub/KDMX20240813_nested", "KDMX20240813_]]>x", "KDMX20240813_a b"];
const SIZES: [&str; 4] = ["0", "1", "4294967296", "18446744073709551615"];

fn name_for(i: usize) -> String {
    if NAME_ALPHABET[i] == "LONG" {
        format!("KDMX20240813_{}", "x".repeat(900))
    } else {
        NAME_ALPHABET[i].to_string()
    }
}

#[derive(Clone, Debug)]
struct ListCase {
    /// deliver the listing body in two TCP writes, cut at the k-th byte of the first multi-byte
    /// character of the body (0 = one write); 100+k = cut k bytes before the end of the body
    split: usize,
    realtime: bool,
    /// (name index, size index, fractional timestamp)
    objs: Vec<(usize, usize, bool)>,
    fault: usize,
    max_keys: usize,
    big: usize, // if > 0: bucket of this many plain objects instead of objs
    /// index into s3sim::FRAMINGS (how the listing body is framed on the wire)
    framing: usize,
}

impl ListCase {
    fn json(&self) -> Value {
        json!({"op": "list", "realtime": self.realtime, "objs": self.objs.iter().map(|o| json!([o.0, o.1, o.2])).collect::<Vec<_>>(), "fault": LIST_FAULTS[self.fault], "max_keys": self.max_keys, "big": self.big, "split": self.split, "framing": self.framing})
    }
}

struct Served {
    requests: Vec<String>,
    parsed: Vec<Request>,
}

fn check_list(ctx: &Ctx, sim: &Sim, rt: &tokio::runtime::Runtime, c: &ListCase, st: &mut Stats) {
    let prefix = if c.realtime { "KDMX/17/".to_string() } else { "2024/08/13/KDMX".to_string() };
    let bucket_name = if c.realtime { REALTIME_BUCKET } else { ARCHIVE_BUCKET };
    // bucket: matching objects plus near-miss objects that must not be returned
    let mut all: Vec<Obj> = Vec::new();
    if c.big > 0 {
        for i in 0..c.big {
            let name = if c.realtime { format!("20240813-123330-{:03}-I", i % 1000) } else { format!("KDMX20240813_{:06}_V06", i) };
            let key = if c.realtime { format!("KDMX/17/{name}") } else { format!("2024/08/13/KDMX/{name}") };
            all.push(Obj { key, modified_ms: T0 + i as i64 * 1000, size_text: "123".into(), fractional: true });
        }
    }
    for (k, (ni, si, frac)) in c.objs.iter().enumerate() {
        let name = name_for(*ni);
        let key = if c.realtime { format!("KDMX/17/{name}") } else { format!("2024/08/13/KDMX/{name}") };
        all.push(Obj { key, modified_ms: T0 + k as i64 * 61_000 + if *frac { 123 } else { 0 }, size_text: SIZES[*si].into(), fractional: *frac });
    }
    for miss in ["2024/08/13/KDM/other", "2024/08/14/KDMX/KDMX20240814_000000_V06", "2024/08/13/KTLX/KTLX20240813_000000_V06", "KDMX/170/20240813-000000-001-S", "KDMX/1/20240813-000000-001-S", "KTLX/17/20240813-000000-001-S"] {
        all.push(Obj { key: miss.to_string(), modified_ms: T0, size_text: "5".into(), fractional: false });
    }
    all.sort_by(|a, b| a.key.as_bytes().cmp(b.key.as_bytes()));
    let matching: Vec<Obj> = all.iter().filter(|o| o.key.starts_with(&prefix)).cloned().collect();
    let limit = if c.realtime { c.max_keys } else { 1000 };
    let served: Vec<Obj> = matching.iter().take(limit).cloned().collect();
    let naturally_truncated = matching.len() > limit;
    let log = Arc::new(Mutex::new(Served { requests: vec![], parsed: vec![] }));
    {
        let log = log.clone();
        let served = served.clone();
        let fault = c.fault;
        let split = c.split;
        let all2 = all.clone();
        sim.set_handler(Box::new(move |req| {
            let mut l = log.lock().unwrap_or_else(|e| e.into_inner());
            l.requests.push(req.raw().to_string());
            l.parsed.push(req.clone());
            match req {
                Request::List { bucket, prefix, max_keys, continuation, .. } => {
                    // the simulator answers from its own bucket model (prefix filter, bucket order,
                    // max-keys, ListObjectsV2 paging with continuation tokens)
                    let matching_all: Vec<Obj> = all2.iter().filter(|o| o.key.starts_with(prefix.as_str())).cloned().collect();
                    let (m, next) = match page(&matching_all, *max_keys, continuation) {
                        Ok(x) => x,
                        Err(()) => return Response::xml(400, invalid_argument_xml()),
                    };
                    let mut objs = m;
                    let mut trunc = next.is_some();
                    let mut order = 0;
                    match fault {
                        1 => trunc = true,
                        2 | 3 | 4 => {
                            if let Some(o) = objs.last_mut() {
                                o.size_text = ["abc", "-1", "18446744073709551616"][fault - 2].into();
                            }
                        }
                        6 => order = 1,
                        7 => order = 2,
                        9 => order = 3,
                        10 => order = 4,
                        11 => order = 6,
                        _ => {}
                    }
                    let _ = &served;
                    // fault 1 = the truncation flag without a token (a server that does not page)
                    let body = list_xml_tok(bucket, prefix, &objs, trunc, order, if fault == 1 { None } else { next.as_deref() });
                    if split > 0 {
                        let bytes = body.as_bytes();
                        let cut = if split >= 100 {
                            bytes.len().saturating_sub(split - 100)
                        } else {
                            // k-th continuation position after the n-th non-ASCII lead byte
                            let leads: Vec<usize> = (0..bytes.len()).filter(|i| bytes[*i] >= 0xC0).collect();
                            match leads.get((split - 1) / 3) {
                                Some(l) => l + 1 + (split - 1) % 3,
                                None => bytes.len() / 2,
                            }
                        };
                        let mut r = Response::xml(200, body);
                        r.split_at = vec![cut];
                        return r;
                    }
                    match fault {
                        5 => Response::xml(200, body[..body.len() / 2].to_string() + "<<<&&&"),
                        8 => Response::xml(200, String::new()),
                        _ => Response::xml(200, body),
                    }
                }
                _ => Response::xml(404, not_found_xml("?")),
            }
        }));
    }
    st.eval();
    let wit = || c.json();
    let date = NaiveDate::from_ymd_opt(2024, 8, 13).expect("date");
    let fault = LIST_FAULTS[c.fault];
    let exp_names: Vec<String> = served.iter().map(|o| o.key.rsplit('/').next().unwrap_or("").to_string()).collect();
    let exp_times: Vec<i64> = served.iter().map(|o| o.modified_ms).collect();
    let size_fault_applies = matches!(c.fault, 2 | 3 | 4) && !served.is_empty();
    enum Got {
        Names(Vec<String>, Vec<Option<i64>>),
        Err(String),
    }
    let r = guarded(|| {
        if c.realtime {
            match rt.block_on(realtime::list_chunks_in_volume("KDMX", VolumeIndex::new(17), c.max_keys)) {
                Ok(v) => {
                    let bad = v.iter().any(|i| i.site() != "KDMX" || i.volume().as_number() != 17);
                    if bad {
                        return Got::Err("IDENTIFIER_FIELDS".into());
                    }
                    Got::Names(v.iter().map(|i| i.name().to_string()).collect(), v.iter().map(|i| i.date_time().map(|d| d.timestamp_millis())).collect())
                }
                Err(e) => Got::Err(format!("{:?}", e)),
            }
        } else {
            match rt.block_on(archive::list_files("KDMX", &date)) {
                Ok(v) => Got::Names(v.iter().map(|i| i.name().to_string()).collect(), vec![]),
                Err(e) => Got::Err(format!("{:?}", e)),
            }
        }
    });
    sim.clear_handler();
    let api = if c.realtime { "list_chunks_in_volume" } else { "list_files" };
    match r {
        Caught::Panic(p) => {
            ctx.fail(&format!("{api}:panic:fault={fault}"), || p.clone(), wit);
            st.outcome("panic");
        }
        Caught::Ret(Got::Err(e)) => {
            let truncated_archive = !c.realtime && (c.fault == 1 || naturally_truncated);
            let expected_err = size_fault_applies || truncated_archive;
            if e == "IDENTIFIER_FIELDS" {
                ctx.fail(&format!("{api}:identifier_site_or_volume"), || format!("{:?}", c), wit);
            } else if !expected_err && matches!(c.fault, 0 | 1 | 6 | 7 | 9 | 10 | 11) {
                ctx.fail(&format!("{api}:error_on_well_formed_listing:fault={fault}"), || format!("{:?}: {e}", c), wit);
            } else if truncated_archive && !size_fault_applies && !e.contains("TruncatedListObjectsResponse") {
                ctx.fail("list_files:truncated_listing_wrong_error", || format!("{:?}: {e}", c), wit);
            }
            st.outcome("err");
        }
        Caught::Ret(Got::Names(names, times)) => {
            st.outcome("ok");
            let complete: Vec<String> = matching.iter().map(|o| o.key.rsplit('/').next().unwrap_or("").to_string()).collect();
            if !c.realtime && c.fault == 1 {
                ctx.fail("list_files:truncated_listing_accepted", || format!("{:?}: {} identifiers returned from a truncated listing", c, names.len()), wit);
            } else if !c.realtime && naturally_truncated {
                // the listing spans several pages: an error is fine, the complete listing (an
                // implementation that follows the continuation tokens) is fine, a part of it is not
                if names != complete {
                    ctx.fail("list_files:truncated_listing_silently_partial", || format!("{:?}: {} of {} identifiers returned as Ok", c, names.len(), complete.len()), wit);
                }
            } else if size_fault_applies {
                ctx.fail(&format!("{api}:unparsable_size_accepted:{fault}"), || format!("{:?}", c), wit);
            } else if matches!(c.fault, 0 | 1 | 6 | 7 | 9 | 10 | 11) {
                if names != exp_names {
                    let nested = served.iter().any(|o| o.key[prefix.len()..].trim_start_matches('/').contains('/'));
                    let sig = if names.len() != exp_names.len() {
                        format!("{api}:identifier_count:fault={fault}")
                    } else if nested {
                        format!("{api}:name_is_not_final_path_segment")
                    } else {
                        let ni = names.iter().zip(exp_names.iter()).position(|(a, b)| a != b).unwrap_or(0);
                        let which = served[ni].key.rsplit('/').next().unwrap_or("");
                        let cls = if which.contains('&') || which.contains('<') || which.contains('"') || which.contains("]]>") { "xml_special" } else if !which.is_ascii() { "non_ascii" } else if which.len() > 500 { "long" } else { "plain" };
                        format!("{api}:name_mismatch:{cls}:fault={fault}")
                    };
                    ctx.fail(&sig, || format!("{:?}: got {:?} expected {:?}", c, names.iter().map(|n| n.chars().take(40).collect::<String>()).collect::<Vec<_>>(), exp_names.iter().map(|n| n.chars().take(40).collect::<String>()).collect::<Vec<_>>()), wit);
                }
                if c.realtime && times != exp_times.iter().map(|t| Some(*t)).collect::<Vec<_>>() {
                    ctx.fail(&format!("{api}:last_modified_mismatch:fault={fault}"), || format!("{:?}: {:?} vs {:?}", c, times, exp_times), wit);
                }
            }
        }
    }
    // request log: the property constrains what the listing returns, not how many requests are made
    // or which max-keys is passed, so deviations are recorded as observations only
    let l = log.lock().unwrap_or_else(|e| e.into_inner());
    let ok_req = l.parsed.len() == 1
        && match &l.parsed[0] {
            Request::List { bucket, prefix: p, max_keys, .. } => bucket == bucket_name && *p == prefix && *max_keys == if c.realtime { Some(c.max_keys) } else { None },
            _ => false,
        };
    if !ok_req {
        st.count("listing_request_shape_differs_from_pinned_implementation", 1);
    }
}

// ---- downloads ---------------------------------------------------------------------------------

pub const STATUSES: [u16; 13] = [200, 204, 206, 301, 302, 304, 400, 403, 404, 416, 429, 500, 503];
pub const LM_FORMS: [&str; 4] = ["present", "absent", "malformed", "present_lowercase_header_name"];

#[derive(Clone, Debug)]
struct GetCase {
    realtime: bool,
    name: usize,
    size: usize,
    status: u16,
    lm: usize,
    /// 0 = the whole body arrives; k > 0 = the transfer dies after (1: half, 2: all but one, 3: none
    /// of) the body although the framing promised all of it (full Content-Length / no last chunk)
    short_body: u8,
    /// 0 = one write; k = body delivered in k+1 TCP writes
    split: usize,
    /// index into s3sim::FRAMINGS: Content-Length, chunked (1000- and 7-byte chunks), close-delimited
    framing: usize,
    /// time already carried by the identifier that is handed to download_chunk (e.g. from an earlier
    /// listing): 0 = none, 1 = the object's Last-Modified, 2 = 16 s earlier (the object was re-written
    /// since it was listed), 3 = half a second later (a listing with sub-second resolution)
    id_time: u8,
}

impl GetCase {
    fn json(&self) -> Value {
        json!({"op": "get", "realtime": self.realtime, "name": self.name, "size": self.size, "status": self.status, "last_modified": LM_FORMS[self.lm], "short_body": self.short_body, "split": self.split, "framing": self.framing, "id_time": self.id_time})
    }
}

const DL_SUFFIXES: [&str; 9] = ["_V06", "_V06&x=1", "_<V06>", "_\"q\"'a'", "_é", "_日本", "LONG", "_a b", "_V06.gz"];
/// collection times near the day / month / year boundary (the request key carries the UTC date)
const DL_TIMES: [&str; 5] = ["20240813_123330", "20240813_001230", "20240813_232323", "20240101_000500", "20240229_235959"];

fn archive_dl_name(i: usize) -> String {
    if i >= DL_SUFFIXES.len() {
        return format!("KDMX{}_V06", DL_TIMES[(i - DL_SUFFIXES.len() + 1) % DL_TIMES.len()]);
    }
    let suf = DL_SUFFIXES[i % DL_SUFFIXES.len()];
    if suf == "LONG" {
        format!("KDMX20240813_123330_{}", "x".repeat(900))
    } else {
        format!("KDMX20240813_123330{suf}")
    }
}

const RT_NAMES: [&str; 6] = ["20240813-123330-014-I", "20240813-123330-001-S", "20240813-123330-055-E", "20240813-123330-014-I&x=1", "20240813-123330-014-Ié日本", "20240813-123330-014-I <\"x\">"];

fn object_bytes(realtime: bool, size: usize) -> Vec<u8> {
    let mut v: Vec<u8> = (0..size).map(|i| (i * 31 + 7) as u8).collect();
    if realtime && size >= 6 {
        v[4] = b'B';
        v[5] = b'Z';
    }
    v
}

fn check_get(ctx: &Ctx, sim: &Sim, rt: &tokio::runtime::Runtime, c: &GetCase, st: &mut Stats) {
    let name = if c.realtime { RT_NAMES[c.name % RT_NAMES.len()].to_string() } else { archive_dl_name(c.name) };
    let exp_key = if c.realtime { format!("KDMX/17/{name}") } else { format!("{}/{}/{}/KDMX/{name}", &name[4..8], &name[8..10], &name[10..12]) };
    let exp_bucket = if c.realtime { REALTIME_BUCKET } else { ARCHIVE_BUCKET };
    let data = object_bytes(c.realtime, c.size);
    let log = Arc::new(Mutex::new(Served { requests: vec![], parsed: vec![] }));
    {
        let log = log.clone();
        let data = data.clone();
        let (status, lm, short, split, framing) = (c.status, c.lm, c.short_body, c.split, FRAMINGS[c.framing % FRAMINGS.len()]);
        sim.set_handler(Box::new(move |req| {
            let mut l = log.lock().unwrap_or_else(|e| e.into_inner());
            l.requests.push(req.raw().to_string());
            l.parsed.push(req.clone());
            let body = match status {
                200 | 206 => data.clone(),
                204 | 304 => vec![],
                404 => not_found_xml("k").into_bytes(),
                _ => error_xml("Simulated").into_bytes(),
            };
            let mut r = Response::new(status, body);
            match lm {
                0 => r = r.header("Last-Modified", &http_date(T0)),
                3 => r = r.header("last-modified", &http_date(T0)).header("x-amz-request-id", "ABC").header("ETag", "\"abc\""),
                2 => r = r.header("Last-Modified", "yesterday at noon"),
                _ => {}
            }
            r.framing = Some(framing);
            if short > 0 && !r.body.is_empty() {
                let n = r.body.len();
                r.truncate_at = Some(match short { 1 => n / 2, 2 => n - 1, _ => 0 });
            }
            if split > 0 && r.body.len() > 1 {
                let n = r.body.len();
                r.split_at = (1..=split).map(|k| (n * k / (split + 1)).max(1)).collect();
            }
            r
        }));
    }
    st.eval();
    let wit = || c.json();
    enum Got {
        Ok(Vec<u8>, Option<Option<i64>>, Option<(String, usize, String)>),
        Err(String),
    }
    let r = guarded(|| {
        if c.realtime {
            let held = match c.id_time {
                1 => chrono::DateTime::from_timestamp_millis(T0),
                2 => chrono::DateTime::from_timestamp_millis(T0 - 16_000),
                3 => chrono::DateTime::from_timestamp_millis(T0 + 500),
                _ => None,
            };
            let id = ChunkIdentifier::new("KDMX".into(), VolumeIndex::new(17), name.clone(), held);
            match rt.block_on(realtime::download_chunk("KDMX", &id)) {
                Ok((rid, chunk)) => {
                    let bytes = match &chunk {
                        Chunk::Start(f) => f.data().clone(),
                        Chunk::IntermediateOrEnd(r) => r.data().to_vec(),
                    };
                    Got::Ok(bytes, Some(rid.date_time().map(|d| d.timestamp_millis())), Some((rid.site().to_string(), rid.volume().as_number(), rid.name().to_string())))
                }
                Err(e) => Got::Err(format!("{:?}", e)),
            }
        } else {
            match rt.block_on(archive::download_file(Identifier::new(name.clone()))) {
                Ok(f) => Got::Ok(f.data().clone(), None, None),
                Err(e) => Got::Err(format!("{:?}", e)),
            }
        }
    });
    sim.clear_handler();
    let api = if c.realtime { "download_chunk" } else { "download_file" };
    let name_cls = if name.is_ascii() && !name.contains(['&', '<', '"', ' ']) { "plain" } else { "special" };
    match r {
        Caught::Panic(p) => {
            ctx.fail(&format!("{api}:panic:status={}", c.status), || p.clone(), wit);
            st.outcome("panic");
        }
        Caught::Ret(Got::Ok(bytes, time, id)) => {
            st.outcome("ok");
            if c.status != 200 {
                ctx.fail(&format!("{api}:non_200_status_accepted:status={}", c.status), || format!("{:?}", c), wit);
            } else {
                if bytes != data {
                    ctx.fail(&format!("{api}:bytes_differ:short_body={}", c.short_body), || format!("{:?}: {} bytes returned, {} stored", c, bytes.len(), data.len()), wit);
                }
                if let Some(t) = time {
                    let exp = if c.lm == 0 || c.lm == 3 { Some(T0) } else { None };
                    if c.lm != 2 && t != exp || (c.lm == 2 && t.is_some() && t != Some(T0)) {
                        ctx.fail(&format!("{api}:last_modified:{}", LM_FORMS[c.lm]), || format!("{:?}: {:?} expected {:?}", c, t, exp), wit);
                    }
                }
                if let Some((site, vol, n)) = id {
                    if site != "KDMX" || vol != 17 || n != name {
                        ctx.fail(&format!("{api}:identifier_not_the_one_asked_for"), || format!("{:?}: {site}/{vol}/{n}", c), wit);
                    }
                }
            }
        }
        Caught::Ret(Got::Err(e)) => {
            st.outcome("err");
            let chunk_shaped = !c.realtime || c.size >= 6;
            if c.status == 200 && c.short_body == 0 && chunk_shaped {
                ctx.fail(&format!("{api}:error_on_successful_download:name={name_cls}"), || format!("{:?}: {e}", c), wit);
            }
            if c.status == 404 && !e.contains("S3ObjectNotFoundError") {
                ctx.fail(&format!("{api}:missing_object_not_mapped_to_not_found"), || format!("{:?}: {e}", c), wit);
            }
            if c.status != 404 && c.status != 200 && e.contains("S3ObjectNotFoundError") {
                ctx.fail(&format!("{api}:status_{}_reported_as_not_found", c.status), || format!("{:?}: {e}", c), wit);
            }
        }
    }
    let l = log.lock().unwrap_or_else(|e| e.into_inner());
    let ok_req = l.parsed.len() == 1 && matches!(&l.parsed[0], Request::Get { bucket, key, .. } if bucket == exp_bucket && *key == exp_key);
    if !ok_req {
        ctx.fail(&format!("{api}:requested_key:name={name_cls}"), || format!("{:?}: requests {:?}, expected GET /{exp_bucket}/{exp_key}", c, l.requests), wit);
    }
}

pub fn run(ctx: &'static Ctx) -> (&'static str, Value, Vec<&'static str>) {
    let thorough = ctx.tier.thorough();
    let sim = Sim::start();
    let rt = runtime();
    let mut stats = Stats::new();
    // --- listings: bucket contents x fault menu
    let mut lists: Vec<ListCase> = Vec::new();
    let nn = NAME_ALPHABET.len();
    let mut contents: Vec<Vec<(usize, usize, bool)>> = vec![vec![]];
    for a in 0..nn {
        for s in 0..SIZES.len() {
            contents.push(vec![(a, s, (a + s) % 2 == 0)]);
        }
    }
    for a in 0..nn {
        for b in 0..nn {
            if a != b {
                contents.push(vec![(a, (a + b) % 4, true), (b, (a * 3 + b) % 4, false)]);
            }
        }
    }
    let trip_step = if thorough { 1 } else { 7 };
    let mut k = 0;
    for a in 0..nn {
        for b in 0..nn {
            for c in 0..nn {
                if a != b && b != c && a != c {
                    k += 1;
                    if k % trip_step == 0 {
                        contents.push(vec![(a, k % 4, k % 2 == 0), (b, (k / 4) % 4, k % 3 == 0), (c, (k / 16) % 4, true)]);
                    }
                }
            }
        }
    }
    for (ci, objs) in contents.iter().enumerate() {
        for realtime in [false, true] {
            for fault in 0..LIST_FAULTS.len() {
                // faults other than normal on the pair/triple buckets are strided in quick mode
                if !thorough && objs.len() >= 2 && fault != 0 && (ci + fault) % 4 != 0 {
                    continue;
                }
                let mks: Vec<usize> = if realtime { if fault == 0 { vec![1, 2, 100] } else { vec![100] } } else { vec![0] };
                for mk in mks {
                    lists.push(ListCase { split: 0, realtime, objs: objs.clone(), fault, max_keys: mk, big: 0, framing: 0 });
                }
            }
        }
    }
    for big in [999usize, 1000, 1001, 1500, 2500] {
        for realtime in [false, true] {
            for fault in [0usize, 1] {
                lists.push(ListCase { split: 0, realtime, objs: vec![(0, 1, true)], fault, max_keys: if realtime { 100 } else { 0 }, big, framing: 0 });
            }
        }
    }
    // transport fragmentation: the body arrives in two pieces, cut inside a multi-byte character
    // (every continuation position of the first few non-ASCII characters) or near the end
    for realtime in [false, true] {
        for objs in [vec![(4usize, 1usize, true), (5, 2, false)], vec![(5, 0, true)], vec![(4, 3, false), (0, 1, true), (5, 1, true)]] {
            for split in (1..=12).chain([101, 105, 120, 160]) {
                lists.push(ListCase { split, realtime, objs: objs.clone(), fault: 0, max_keys: 100, big: 0, framing: 0 });
            }
        }
    }
    lists.push(ListCase { split: 4, realtime: false, objs: vec![(5, 1, true)], fault: 0, max_keys: 0, big: 600, framing: 0 });
    // body framing: the same listings delivered with chunked transfer encoding (which is what S3
    // itself uses for listings) and close-delimited
    let reframed: Vec<ListCase> = lists
        .iter()
        .enumerate()
        .filter(|(i, c)| i % 5 == 1 || c.big > 0 || c.split > 0)
        .flat_map(|(_, c)| (1..FRAMINGS.len()).map(move |f| ListCase { framing: f, ..c.clone() }))
        .collect();
    lists.extend(reframed);
    for (i, c) in lists.iter().enumerate() {
        set_default_framing(FRAMINGS[c.framing % FRAMINGS.len()]);
        check_list(ctx, &sim, &rt, c, &mut stats);
        set_default_framing(Framing::Length);
        stats.dim("list_fault", LIST_FAULTS[c.fault]);
        stats.dim("list_objects", if c.big > 0 { c.big } else { c.objs.len() });
        stats.dim("api", if c.realtime { "list_chunks_in_volume" } else { "list_files" });
        if c.fault != 0 || c.objs.len() >= 2 {
            stats.nontrivial(format!("{:?}", c).as_bytes());
        }
        if i % 401 == 7 {
            stats.sample(4, || c.json());
        }
    }
    stats.count("listing_scenarios", lists.len() as u64);
    // --- downloads
    let mut gets: Vec<GetCase> = Vec::new();
    let sizes: Vec<usize> = if thorough { vec![0, 1, 6, 4096, 2 << 20] } else { vec![0, 1, 6, 4096] };
    for realtime in [false, true] {
        for name in 0..if realtime { RT_NAMES.len() } else { DL_SUFFIXES.len() + DL_TIMES.len() - 1 } {
            for &size in &sizes {
                for &status in &STATUSES {
                    for lm in 0..4 {
                        for short_body in 0..=3u8 {
                            if short_body > 0 && (status != 200 || lm != 0) {
                                continue;
                            }
                            if !thorough && name > 0 && size > 6 && status != 200 && status != 404 {
                                continue;
                            }
                            gets.push(GetCase { realtime, name, size, status, lm, short_body, split: 0, framing: 0, id_time: 0 });
                            if status == 200 && lm == 0 && short_body == 0 && size > 1 && name < 2 {
                                for split in [1usize, 3] {
                                    gets.push(GetCase { realtime, name, size, status, lm, short_body, split, framing: 0, id_time: 0 });
                                }
                            }
                            // the other body framings (chunked, close-delimited), with and without
                            // a transfer that dies part-way
                            if (status == 200 || status == 404 || status == 500) && lm == 0 && name < 2 {
                                for framing in 1..FRAMINGS.len() {
                                    // a close-delimited body that is cut short is indistinguishable from a shorter object
                                    if short_body > 0 && FRAMINGS[framing] == Framing::Close {
                                        continue;
                                    }
                                    gets.push(GetCase { realtime, name, size, status, lm, short_body, split: if size > 6 { 2 } else { 0 }, framing, id_time: 0 });
                                }
                            }
                        }
                    }
                }
            }
        }
    }
    if !thorough {
        gets.push(GetCase { realtime: false, name: 0, size: 2 << 20, status: 200, lm: 0, short_body: 0, split: 0, framing: 0, id_time: 0 });
        gets.push(GetCase { realtime: false, name: 0, size: 2 << 20, status: 200, lm: 0, short_body: 1, split: 0, framing: 0, id_time: 0 });
        gets.push(GetCase { realtime: true, name: 0, size: 2 << 20, status: 200, lm: 0, short_body: 0, split: 0, framing: 1, id_time: 0 });
        gets.push(GetCase { realtime: true, name: 0, size: 2 << 20, status: 200, lm: 0, short_body: 0, split: 2, framing: 0, id_time: 0 });
    }
    // the identifier handed to download_chunk may already carry a time (it usually comes from a
    // listing): the returned identifier is stamped with the object's Last-Modified whatever it held
    let with_time: Vec<GetCase> = gets
        .iter()
        .filter(|c| c.realtime && c.short_body == 0 && c.split == 0 && c.framing == 0 && (c.status == 200 || c.status == 404))
        .flat_map(|c| (1..=3u8).map(move |t| GetCase { id_time: t, ..c.clone() }))
        .collect();
    stats.count("downloads_with_an_identifier_that_already_carries_a_time", with_time.len() as u64);
    gets.extend(with_time);
    for (i, c) in gets.iter().enumerate() {
        check_get(ctx, &sim, &rt, c, &mut stats);
        stats.dim("get_status", c.status);
        stats.dim("get_size", c.size);
        stats.dim("api", if c.realtime { "download_chunk" } else { "download_file" });
        if c.status != 200 || c.lm != 0 || c.short_body > 0 {
            stats.nontrivial(format!("{:?}", c).as_bytes());
        }
        if i % 397 == 11 {
            stats.sample(7, || c.json());
        }
    }
    stats.count("download_scenarios", gets.len() as u64);
    let cov = stats.coverage(
        "listings: bucket contents = all lists of 0..=2 objects (thorough: all triples; quick: every 7th) over a 10-name alphabet {plain, &, <>, quotes, é, 日本, 900-char, nested sub/NAME, ]]>, space} x 4 sizes (0, 1, 2^32, 2^64-1) x timestamp forms, plus near-miss keys that must be filtered, plus 999/1000/1001-object buckets; both listing entry points; max-keys {1,2,100}; response menu {normal, IsTruncated=true, size abc / -1 / 2^64, garbled XML, two element orders, empty body, and three equivalent serialisations of the same listing: pretty-printed with whitespace text nodes, numeric character references, extra <Owner>/<ChecksumAlgorithm> child elements}; transport fragmentation: listing bodies delivered in two TCP writes cut at every continuation byte of the first non-ASCII characters and near the end, download bodies in 2 and 4 writes. downloads: names x sizes {0,1,6,4 KiB[,2 MiB]} x status {200,204,206,400,403,404,500,503} x Last-Modified {present, absent, malformed} x transfer that dies after half / all but one / none of the body x body framing {Content-Length, chunked 1000, chunked 7, close-delimited}. non-trivial = scenario with a fault / non-200 / >=2 objects",
        true,
        json!({"list_faults": LIST_FAULTS, "statuses": STATUSES}),
    );
    drop(sim);
    (
        "fault_enumeration",
        cov,
        vec![
            "verif-hooks endpoint override; simulator's HTTP/XML framing and its bucket model (prefix filter, UTF-8 binary key order, max-keys truncation)",
            "listing while the HTTP status is an error, and names containing ? or #, are unspecified by the property and not judged",
            "tokio paused clock (no timers are relevant here)",
        ],
    )
}

pub fn replay(ctx: &'static Ctx, case: &Value) {
    let sim = Sim::start();
    let rt = runtime();
    let mut st = Stats::new();
    match case["op"].as_str() {
        Some("list") => {
            let c = ListCase {
                realtime: case["realtime"].as_bool().unwrap_or(false),
                objs: case["objs"].as_array().map(|a| a.iter().map(|o| (o[0].as_u64().unwrap_or(0) as usize, o[1].as_u64().unwrap_or(0) as usize, o[2].as_bool().unwrap_or(false))).collect()).unwrap_or_default(),
                fault: LIST_FAULTS.iter().position(|f| Some(*f) == case["fault"].as_str()).unwrap_or(0),
                max_keys: case["max_keys"].as_u64().unwrap_or(100) as usize,
                big: case["big"].as_u64().unwrap_or(0) as usize,
                framing: case["framing"].as_u64().unwrap_or(0) as usize,
                split: case["split"].as_u64().unwrap_or(0) as usize,
            };
            set_default_framing(FRAMINGS[c.framing % FRAMINGS.len()]);
            check_list(ctx, &sim, &rt, &c, &mut st);
            set_default_framing(Framing::Length);
            println!("replay list {:?} -> {:?}", c, st.outcomes);
        }
        Some("get") => {
            let c = GetCase {
                realtime: case["realtime"].as_bool().unwrap_or(false),
                name: case["name"].as_u64().unwrap_or(0) as usize,
                size: case["size"].as_u64().unwrap_or(0) as usize,
                status: case["status"].as_u64().unwrap_or(200) as u16,
                lm: LM_FORMS.iter().position(|f| Some(*f) == case["last_modified"].as_str()).unwrap_or(0),
                short_body: case["short_body"].as_u64().unwrap_or(0) as u8,
                framing: case["framing"].as_u64().unwrap_or(0) as usize,
                split: case["split"].as_u64().unwrap_or(0) as usize,
                id_time: case["id_time"].as_u64().unwrap_or(0) as u8,
            };
            check_get(ctx, &sim, &rt, &c, &mut st);
            println!("replay get {:?} -> {:?}", c, st.outcomes);
        }
        _ => machinery("C17 replay: unknown op"),
    }
}
