//! Context messages and cross-API disturbances.
//!
//! Two dimensions that no single-operation enumeration reaches:
//! * within one stream, a field of message A may (wrongly) influence how a later message B of a
//!   different type is decoded (`context_messages`, used by C03's context sweep);
//! * process-wide state written by one API may (wrongly) influence the results of an unrelated API
//!   (`disturbances`, applied by `core::history_check` to every property's probe operations).
//!
//! Content matters (a flag may be keyed on "build number below 10.0"), so every halfword of the
//! status and VCP messages is set, one at a time, to each value of `CTX_VALUES`.

use crate::enc::*;
use crate::t31::*;
use nexrad_decode::messages as dm;

/// 1, 189 (18.9 / 1.89), 999 (9.99 / 99.9), 1899, largest positive, all ones
pub const CTX_VALUES: [u16; 6] = [0x0001, 0x00BD, 0x03E7, 0x076B, 0x7FFF, 0xFFFF];

fn header(typ: u8, pos: usize) -> MsgHeader {
    let mut mh = MsgHeader::simple(typ, 19000, 900 + pos as u32);
    mh.seq = pos as u16;
    mh
}

/// Framed messages (label, bytes) that are used as the first message of a stream.
pub fn context_messages() -> Vec<(String, Vec<u8>)> {
    let mut out = Vec::new();
    // RDA status: every halfword x value
    for h in 0..60usize {
        for v in CTX_VALUES {
            let mut hw = rda_in_domain();
            hw[h] = v;
            out.push((format!("status[hw{h}={v:#06x}]"), fixed_frame(&header(2, 0), &rda_body(&hw))));
        }
    }
    // VCP: every halfword of the header and of the first two cuts x value (the declared cut count
    // and the message size are left alone so that the message stays well formed)
    let cuts = vec![VcpCut::new(0x0058, 0, 1, 1, 1), VcpCut::new(0x00B0, 2, 4, 0, 2)];
    let base = vcp_body(&vcp_header_hw(212, 2), &cuts);
    for h in 0..(11 + 2 * 23) {
        if h == 0 || h == 3 {
            continue;
        }
        for v in CTX_VALUES {
            let mut b = base.clone();
            b[2 * h..2 * h + 2].copy_from_slice(&v.to_be_bytes());
            out.push((format!("vcp[hw{h}={v:#06x}]"), fixed_frame(&header(5, 0), &b)));
        }
    }
    // type 31: every halfword of the 28 bytes in front of the block count, and of the VOL block
    let (h31, blocks) = simple_radial(1, 1, 19000, 77, &[3], 4, Some(212));
    let (body, ptrs) = t31_body(&h31, &blocks, &Layout::default());
    let vol_at = ptrs[0] as usize;
    let mut offsets: Vec<usize> = (0..14).map(|k| 2 * k).collect();
    offsets.retain(|o| *o != 18); // radial length
    offsets.extend((0..22).map(|k| vol_at + 6 + 2 * k)); // inside VOL, after type/name/size
    for off in offsets {
        for v in CTX_VALUES {
            let mut b = body.clone();
            if off + 2 <= b.len() {
                b[off..off + 2].copy_from_slice(&v.to_be_bytes());
            }
            let mut msg = header(31, 0).encode();
            msg.extend_from_slice(&b);
            out.push((format!("t31[+{off}={v:#06x}]"), msg));
        }
    }
    // clutter filter map and the undecoded kinds, as they are
    for sym in [2usize, 3, 4, 5] {
        out.push((format!("kind{sym}"), crate::props::c03::message_bytes(sym, 0)));
    }
    // message-header fields of a status message
    for (k, v) in [(12usize, 0xFFFFu16), (12, 0x0001), (14, 0x0802), (14, 0x8002), (16, 0xFFFF), (24, 0xFFFF), (26, 0x0000), (26, 0xFFFF)] {
        let mut m = fixed_frame(&header(2, 0), &rda_body(&rda_in_domain()));
        m[k..k + 2].copy_from_slice(&v.to_be_bytes());
        if k != 12 && k != 14 {
            out.push((format!("status.header[+{k}={v:#06x}]"), m));
        }
    }
    // the frame of a fixed-length type is 2432 bytes whatever its own header says about size and
    // segments: size, count and number fields of every fixed kind x value (a size field of 0xFFFF
    // is the variable-length marker, under which count/number read as a 32-bit size)
    for (kind, typ) in [("status", 2u8), ("vcp", 5), ("t15", 15), ("t3", 3), ("t18", 18), ("t13", 13), ("t200", 200)] {
        let base = match typ {
            2 => fixed_frame(&header(2, 0), &rda_body(&rda_in_domain())),
            5 => fixed_frame(&header(5, 0), &vcp_body(&vcp_header_hw(212, 2), &[VcpCut::new(0x0058, 0, 1, 1, 1), VcpCut::new(0x00B0, 2, 4, 0, 2)])),
            15 => crate::props::c03::message_bytes(2, 0),
            t => fixed_frame(&header(t, 0), &[0x5Au8; 64]),
        };
        for k in [12usize, 24, 26] {
            for v in [0x0000u16, 0x0001, 0x0009, 0x04B8, 0x04C0, 0x7FFF, 0xFFFE, 0xFFFF] {
                let mut m = base.clone();
                m[k..k + 2].copy_from_slice(&v.to_be_bytes());
                out.push((format!("{kind}.header[+{k}={v:#06x}]"), m.clone()));
                if k == 12 && v == 0xFFFF {
                    // marker + a small / huge 32-bit size in the count and number fields
                    for (c, n) in [(0u16, 0u16), (0, 1216), (0, 2432), (1, 0), (0xFFFF, 0xFFFF)] {
                        let mut m2 = m.clone();
                        m2[24..26].copy_from_slice(&c.to_be_bytes());
                        m2[26..28].copy_from_slice(&n.to_be_bytes());
                        out.push((format!("{kind}.header[marker,size32={:#010x}]", ((c as u32) << 16) | n as u32), m2));
                    }
                }
            }
        }
    }
    out
}

/// Operations on unrelated APIs whose only purpose is to have happened before a probe operation.
pub fn disturbances() -> Vec<(String, Box<dyn Fn() + Send + Sync>)> {
    let mut out: Vec<(String, Box<dyn Fn() + Send + Sync>)> = Vec::new();
    for (label, bytes) in context_messages() {
        let b2 = bytes.clone();
        out.push((
            format!("decode_messages({label})"),
            Box::new(move || {
                let _ = crate::core::guarded(|| dm::decode_messages(&mut std::io::Cursor::new(b2.clone())).map(|v| v.len()).unwrap_or(0));
            }),
        ));
        if label.starts_with("status[") {
            let body = bytes[MSG_HEADER..MSG_HEADER + 120].to_vec();
            out.push((
                format!("decode_rda_status_message({label}) + accessors"),
                Box::new(move || {
                    let _ = crate::core::guarded(|| {
                        if let Ok(m) = dm::rda_status_data::decode_rda_status_message(&mut body.as_slice()) {
                            let _ = crate::core::guarded(|| m.rda_build_number());
                            let _ = crate::core::guarded(|| format!("{:?}", m.alarm_messages().len()));
                        }
                    });
                }),
            ));
        }
    }
    // header-level and identifier-level operations
    for typ in [2u8, 5, 15, 31, 0, 255] {
        for size in [0u16, 1208, 0xFFFF] {
            out.push((
                format!("decode_message_header(type {typ}, size {size:#06x}) + accessors"),
                Box::new(move || {
                    let mut mh = MsgHeader::simple(typ, 19000, 5);
                    mh.size = size;
                    mh.count = 3;
                    mh.number = 2;
                    let _ = crate::core::guarded(|| {
                        if let Ok(h) = dm::decode_message_header(&mut mh.encode().as_slice()) {
                            let _ = (h.segmented(), h.segment_count(), h.segment_number(), h.message_size_bytes(), h.message_type(), h.date_time());
                        }
                    });
                }),
            ));
        }
    }
    #[cfg(feature = "f-decstack")]
    {
        use nexrad_data::volume::{File, Record};
        for (label, payload_sym) in [("record of radials", 7usize), ("record of status messages", 0)] {
            let payload: Vec<u8> = (0..3).flat_map(|i| crate::props::c03::message_bytes(payload_sym, i)).collect();
            let rec = record_bz(&payload, 9, false);
            let vol = volume(&VolHeader::basic(), &[rec.clone()]);
            out.push((
                format!("Record::decompress + messages ({label})"),
                Box::new(move || {
                    let _ = crate::core::guarded(|| Record::new(rec.clone()).decompress().map(|d| d.messages().map(|m| m.len()).unwrap_or(0)).unwrap_or(0));
                }),
            ));
            out.push((
                format!("File::scan ({label})"),
                Box::new(move || {
                    let _ = crate::core::guarded(|| File::new(vol.clone()).scan().is_ok());
                }),
            ));
        }
    }
    out
}
