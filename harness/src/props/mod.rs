pub mod c09;
pub mod c16;
pub mod c08;
pub mod c10;
pub mod c11;
pub mod c12;
pub mod c13;
