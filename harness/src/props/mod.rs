//! One module per property. Modules that only need the decode crate's always-present API are
//! compiled in every build configuration; the others need features of the crates under test.
pub mod c02;
pub mod disturb;
pub mod c03;
pub mod c06;
pub mod c08;
pub mod c10;
pub mod c11;
pub mod c12;
pub mod c13;
pub mod c14;

#[cfg(feature = "f-decstack")]
pub mod c01;
#[cfg(feature = "f-decstack")]
pub mod c04;
#[cfg(feature = "f-decstack")]
pub mod c05;
#[cfg(feature = "f-decstack")]
pub mod c07;
#[cfg(feature = "f-decstack")]
pub mod c09;
#[cfg(feature = "full")]
pub mod c19;
#[cfg(feature = "full")]
pub mod c20;

#[cfg(any(feature = "full", feature = "v-aws"))]
pub mod c15;
#[cfg(any(feature = "full", feature = "v-aws"))]
pub mod c16;
#[cfg(any(feature = "full", feature = "v-aws"))]
pub mod c17;
#[cfg(feature = "full")]
pub mod c18;
