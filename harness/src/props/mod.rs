pub mod c09;
