//! C11 — Volume Coverage Pattern message: layout, scaling and bit fields.
//! E3, exhaustive on raw values: all cut counts that matter, two value plans for the layout, all
//! 65 536 raw values per scaled / bit-field accessor and all 256 per byte-wide code.

use crate::core::*;
use crate::enc::*;
use nexrad_decode::messages as dm;
use nexrad_decode::messages::volume_coverage_pattern as vcp;
use rayon::prelude::*;
use serde_json::{json, Value};

fn plan_hw(plan: u8, i: usize) -> u16 {
    let a = ((i * 2 * 7 + 13) & 0xFF) as u16;
    let b = (((i * 2 + 1) * 7 + 13) & 0xFF) as u16;
    let v = (a << 8) | b;
    match plan {
        0 => v,
        1 => !v,
        2 => (i as u16).wrapping_mul(2654) ^ 0x5A5A,
        3 => 0,
        _ => 0xFFFF,
    }
}

/// Body with `declared` cuts in the header and `present` cut blocks actually encoded.
fn body(plan: u8, declared: u16, present: usize) -> Vec<u8> {
    let mut w = W::new();
    for i in 0..11 {
        w.u16(if i == 3 { declared } else { plan_hw(plan, i) });
    }
    for c in 0..present {
        for i in 0..23 {
            w.u16(plan_hw(plan, 11 + c * 23 + i));
        }
    }
    w.0
}

fn frame_body(mut b: Vec<u8>) -> Vec<u8> {
    b.truncate(FRAME - MSG_HEADER);
    b.resize(FRAME - MSG_HEADER, 0);
    b
}

fn check_layout(ctx: &Ctx, plan: u8, cuts: u16, st: &mut Stats) {
    let raw = body(plan, cuts, cuts as usize);
    st.eval();
    let wit = || json!({"op": "layout", "plan": plan, "cuts": cuts});
    // through the frame path used by decode_messages (2404-byte body, zero padded)
    let fb = frame_body(raw.clone());
    let via_frame = guarded(|| dm::decode_message_contents(&mut std::io::Cursor::new(fb.clone()), dm::MessageType::RDAVolumeCoveragePattern));
    let direct = guarded(|| vcp::decode_volume_coverage_pattern(&mut raw.as_slice()));
    let m = match (direct, via_frame) {
        (Caught::Ret(Ok(m)), Caught::Ret(Ok(dm::MessageContents::VolumeCoveragePattern(f)))) => {
            if *f != m {
                ctx.fail("layout:frame_path_differs_from_direct", || format!("plan {plan} cuts {cuts}"), wit);
            }
            m
        }
        (a, b) => {
            let describe = |x: &str| x.chars().take(120).collect::<String>();
            ctx.fail(
                "decode:well_formed_rejected",
                || format!("plan {plan} cuts {cuts}: direct={} frame={}", describe(&format!("{:?}", a.ret().map(|r| r.is_ok()))), describe(&format!("{:?}", b.ret().map(|r| r.is_ok())))),
                wit,
            );
            return;
        }
    };
    if m.elevations.len() != cuts as usize {
        ctx.fail("layout:cut_count", || format!("declared {cuts}, got {}", m.elevations.len()), wit);
        return;
    }
    let h = &m.header;
    let hf: Vec<(&str, usize, usize, u64)> = vec![
        ("message_size", 0, 2, h.message_size as u64),
        ("pattern_type", 2, 2, h.pattern_type as u64),
        ("pattern_number", 4, 2, h.pattern_number as u64),
        ("number_of_elevation_cuts", 6, 2, h.number_of_elevation_cuts as u64),
        ("version", 8, 1, h.version as u64),
        ("clutter_map_group_number", 9, 1, h.clutter_map_group_number as u64),
        ("doppler_velocity_resolution", 10, 1, h.doppler_velocity_resolution as u64),
        ("pulse_width", 11, 1, h.pulse_width as u64),
        ("reserved_1", 12, 4, h.reserved_1 as u64),
        ("vcp_sequencing", 16, 2, h.vcp_sequencing as u64),
        ("vcp_supplemental_data", 18, 2, h.vcp_supplemental_data as u64),
        ("reserved_2", 20, 2, h.reserved_2 as u64),
    ];
    for (name, off, w, got) in hf {
        let exp = rd(&raw, off, w);
        if got != exp {
            ctx.fail(&format!("layout:header.{name}"), || format!("plan {plan}: {got:#x} vs bytes {exp:#x} at {off}"), wit);
        }
    }
    for (ci, c) in m.elevations.iter().enumerate() {
        let base = 22 + 46 * ci;
        let cf: Vec<(&str, usize, usize, u64)> = vec![
            ("elevation_angle", 0, 2, c.elevation_angle as u64),
            ("channel_configuration", 2, 1, c.channel_configuration as u64),
            ("waveform_type", 3, 1, c.waveform_type as u64),
            ("super_resolution_control", 4, 1, c.super_resolution_control as u64),
            ("surveillance_prf_number", 5, 1, c.surveillance_prf_number as u64),
            ("surveillance_prf_pulse_count_radial", 6, 2, c.surveillance_prf_pulse_count_radial as u64),
            ("azimuth_rate", 8, 2, c.azimuth_rate as u64),
            ("reflectivity_threshold", 10, 2, c.reflectivity_threshold as u16 as u64),
            ("velocity_threshold", 12, 2, c.velocity_threshold as u16 as u64),
            ("spectrum_width_threshold", 14, 2, c.spectrum_width_threshold as u16 as u64),
            ("differential_reflectivity_threshold", 16, 2, c.differential_reflectivity_threshold as u16 as u64),
            ("differential_phase_threshold", 18, 2, c.differential_phase_threshold as u16 as u64),
            ("correlation_coefficient_threshold", 20, 2, c.correlation_coefficient_threshold as u16 as u64),
            ("sector_1_edge_angle", 22, 2, c.sector_1_edge_angle as u64),
            ("sector_1_doppler_prf_number", 24, 2, c.sector_1_doppler_prf_number as u64),
            ("sector_1_doppler_prf_pulse_count_radial", 26, 2, c.sector_1_doppler_prf_pulse_count_radial as u64),
            ("supplemental_data", 28, 2, c.supplemental_data as u64),
            ("sector_2_edge_angle", 30, 2, c.sector_2_edge_angle as u64),
            ("sector_2_doppler_prf_number", 32, 2, c.sector_2_doppler_prf_number as u64),
            ("sector_2_doppler_prf_pulse_count_radial", 34, 2, c.sector_2_doppler_prf_pulse_count_radial as u64),
            ("ebc_angle", 36, 2, c.ebc_angle as u64),
            ("sector_3_edge_angle", 38, 2, c.sector_3_edge_angle as u64),
            ("sector_3_doppler_prf_number", 40, 2, c.sector_3_doppler_prf_number as u64),
            ("sector_3_doppler_prf_pulse_count_radial", 42, 2, c.sector_3_doppler_prf_pulse_count_radial as u64),
            ("reserved", 44, 2, c.reserved as u64),
        ];
        for (name, off, w, got) in cf {
            let exp = rd(&raw, base + off, w);
            if got != exp {
                ctx.fail(
                    &format!("layout:cut.{name}"),
                    || format!("plan {plan} cut {ci}/{cuts}: {got:#x} vs bytes {exp:#x} at {}", base + off),
                    wit,
                );
            }
        }
    }
    st.outcome("layout_ok");
}

/// declared count does not fit the frame => error
fn check_overflow_count(ctx: &Ctx, declared: u16, st: &mut Stats) {
    st.eval();
    let wit = || json!({"op": "overflow", "declared": declared});
    let fb = frame_body(body(0, declared, 51));
    let r = guarded(|| dm::decode_message_contents(&mut std::io::Cursor::new(fb.clone()), dm::MessageType::RDAVolumeCoveragePattern));
    match r {
        Caught::Panic(p) => ctx.fail("count_overflow:panic", || p.clone(), wit),
        Caught::Ret(Ok(_)) => ctx.fail("count_overflow:accepted", || format!("declared {declared} cuts accepted in one frame"), wit),
        Caught::Ret(Err(_)) => st.outcome("count_overflow_err"),
    }
    // and through the whole-stream entry point
    let mut frame = MsgHeader::simple(5, 19000, 0).encode();
    frame.extend_from_slice(&frame_body(body(0, declared, 51)));
    match guarded(|| dm::decode_messages(&mut std::io::Cursor::new(frame.clone()))) {
        Caught::Panic(p) => ctx.fail("count_overflow:panic", || p.clone(), wit),
        Caught::Ret(Ok(_)) => ctx.fail("count_overflow:accepted_by_decode_messages", || format!("declared {declared}"), wit),
        Caught::Ret(Err(_)) => {}
    }
}

fn base_message_plan(plan: u8) -> vcp::Message {
    let raw = body(plan, 2, 2);
    vcp::decode_volume_coverage_pattern(&mut raw.as_slice()).expect("reference VCP decodes")
}

fn base_message() -> vcp::Message {
    let raw = body(0, 1, 1);
    vcp::decode_volume_coverage_pattern(&mut raw.as_slice()).expect("reference VCP decodes")
}

/// one raw 16-bit value through every 16-bit accessor
fn check_raw16(ctx: &Ctx, base: &vcp::Message, raw: u16, st: &mut Stats) {
    let ang = ((raw >> 3) as f64) * 180.0 / 4096.0;
    let mag = (((raw >> 3) & 0x0FFF) as f64) * 22.5 / 2048.0;
    let rate = if raw & 0x8000 != 0 { -mag } else { mag };
    let thr = (raw as i16) as f64 / 8.0;
    let wit = |acc: &str| json!({"op": "raw16", "accessor": acc, "raw": raw});
    let mut c = base.elevations[0].clone();
    let mut h = base.header.clone();
    macro_rules! chk {
        ($name:expr, $got:expr, $exp:expr) => {{
            st.evaluations += 1;
            match guarded(|| $got) {
                Caught::Panic(p) => ctx.fail(&format!("raw16:{}:panic", $name), || format!("raw {raw:#06x}: {p}"), || wit($name)),
                Caught::Ret(g) => {
                    let e = $exp;
                    if g != e {
                        ctx.fail(&format!("raw16:{}:wrong", $name), || format!("raw {raw:#06x}: got {:?} expected {:?}", g, e), || wit($name));
                    }
                }
            }
        }};
    }
    c.elevation_angle = raw;
    chk!("elevation_angle_degrees", c.elevation_angle_degrees(), ang);
    c.sector_1_edge_angle = raw;
    chk!("sector_1_edge_angle_degrees", c.sector_1_edge_angle_degrees(), ang);
    c.sector_2_edge_angle = raw;
    chk!("sector_2_edge_angle_degrees", c.sector_2_edge_angle_degrees(), ang);
    c.sector_3_edge_angle = raw;
    chk!("sector_3_edge_angle_degrees", c.sector_3_edge_angle_degrees(), ang);
    c.ebc_angle = raw;
    chk!("ebc_angle_degrees", c.ebc_angle_degrees(), ang);
    c.azimuth_rate = raw;
    chk!("azimuth_rate_degrees_per_second", c.azimuth_rate_degrees_per_second(), rate);
    #[cfg(feature = "f-uomdec")]
    {
        use uom::si::angle::degree;
        use uom::si::angular_velocity::degree_per_second;
        let close = |a: f64, b: f64| (a - b).abs() <= 1e-9 * (1.0 + b.abs());
        chk!("elevation_angle_uom", close(c.elevation_angle().get::<degree>(), ang), true);
        chk!("ebc_angle_uom", close(c.ebc_angle().get::<degree>(), ang), true);
        chk!("sector_1_edge_angle_uom", close(c.sector_1_edge_angle().get::<degree>(), ang), true);
        chk!("sector_2_edge_angle_uom", close(c.sector_2_edge_angle().get::<degree>(), ang), true);
        chk!("sector_3_edge_angle_uom", close(c.sector_3_edge_angle().get::<degree>(), ang), true);
        chk!("azimuth_rate_uom", close(c.azimuth_rate().get::<degree_per_second>(), rate), true);
    }
    c.reflectivity_threshold = raw as i16;
    chk!("reflectivity_threshold", c.reflectivity_threshold(), thr);
    c.velocity_threshold = raw as i16;
    chk!("velocity_threshold", c.velocity_threshold(), thr);
    c.spectrum_width_threshold = raw as i16;
    chk!("spectrum_width_threshold", c.spectrum_width_threshold(), thr);
    c.differential_reflectivity_threshold = raw as i16;
    chk!("differential_reflectivity_threshold", c.differential_reflectivity_threshold(), thr);
    c.differential_phase_threshold = raw as i16;
    chk!("differential_phase_threshold", c.differential_phase_threshold(), thr);
    c.correlation_coefficient_threshold = raw as i16;
    chk!("correlation_coefficient_threshold", c.correlation_coefficient_threshold(), thr);
    // cut supplemental data: bit 0 SAILS, 1-3 seq, 4 MRLE, 5-7 seq, 9 MPDA, 10 base tilt
    c.supplemental_data = raw;
    chk!("cut.sails_cut", c.supplemental_data_sails_cut(), raw & 1 != 0);
    chk!("cut.sails_sequence_number", c.supplemental_data_sails_sequence_number(), ((raw >> 1) & 7) as u8);
    chk!("cut.mrle_cut", c.supplemental_data_mrle_cut(), raw & 0x10 != 0);
    chk!("cut.mrle_sequence_number", c.supplemental_data_mrle_sequence_number(), ((raw >> 5) & 7) as u8);
    chk!("cut.mpda_cut", c.supplemental_data_mpda_cut(), raw & 0x200 != 0);
    chk!("cut.base_tilt_cut", c.supplemental_data_base_tilt_cut(), raw & 0x400 != 0);
    // header sequencing: bits 0-4, 5-6, 13, 14
    h.vcp_sequencing = raw;
    chk!("hdr.sequencing_number_of_elevations", h.vcp_sequencing_number_of_elevations(), (raw & 0x1F) as u8);
    chk!("hdr.sequencing_maximum_sails_cuts", h.vcp_sequencing_maximum_sails_cuts(), ((raw >> 5) & 3) as u8);
    chk!("hdr.sequencing_sequence_active", h.vcp_sequencing_sequence_active(), raw & 0x2000 != 0);
    chk!("hdr.sequencing_truncated_vcp", h.vcp_sequencing_truncated_vcp(), raw & 0x4000 != 0);
    // header supplemental: 0, 1-3, 4, 5-7, 11, 12, 13-15
    h.vcp_supplemental_data = raw;
    chk!("hdr.supplemental_sails_vcp", h.vcp_supplemental_data_sails_vcp(), raw & 1 != 0);
    chk!("hdr.supplemental_number_sails_cuts", h.vcp_supplemental_data_number_sails_cuts(), ((raw >> 1) & 7) as u8);
    chk!("hdr.supplemental_mrle_vcp", h.vcp_supplemental_data_mrle_vcp(), raw & 0x10 != 0);
    chk!("hdr.supplemental_number_mrle_cuts", h.vcp_supplemental_data_number_mrle_cuts(), ((raw >> 5) & 7) as u8);
    chk!("hdr.supplemental_mpda_vcp", h.vcp_supplemental_data_mpda_vcp(), raw & 0x800 != 0);
    chk!("hdr.supplemental_base_tilt_vcp", h.vcp_supplemental_data_base_tilt_vcp(), raw & 0x1000 != 0);
    chk!("hdr.supplemental_base_tilts", h.vcp_supplemental_data_base_tilts(), ((raw >> 13) & 7) as u8);
    h.pattern_type = raw;
    if raw == 2 {
        chk!("hdr.pattern_type", format!("{:?}", h.pattern_type()), "Constant".to_string());
    } else {
        chk!("hdr.pattern_type_other", format!("{:?}", h.pattern_type()) != "Constant", true);
    }
}

fn check_raw8(ctx: &Ctx, base: &vcp::Message, raw: u8, st: &mut Stats) {
    let wit = |acc: &str| json!({"op": "raw8", "accessor": acc, "raw": raw});
    let mut c = base.elevations[0].clone();
    let mut h = base.header.clone();
    macro_rules! chk {
        ($name:expr, $got:expr, $exp:expr) => {{
            st.evaluations += 1;
            match guarded(|| $got) {
                Caught::Panic(p) => ctx.fail(&format!("raw8:{}:panic", $name), || format!("raw {raw:#04x}: {p}"), || wit($name)),
                Caught::Ret(g) => {
                    let e = $exp;
                    if g != e {
                        ctx.fail(&format!("raw8:{}:wrong", $name), || format!("raw {raw:#04x}: got {:?} expected {:?}", g, e), || wit($name));
                    }
                }
            }
        }};
    }
    c.super_resolution_control = raw;
    chk!("cut.super_res_half_degree_azimuth", c.super_resolution_control_half_degree_azimuth(), raw & 1 != 0);
    chk!("cut.super_res_quarter_km_reflectivity", c.super_resolution_control_quarter_km_reflectivity(), raw & 2 != 0);
    chk!("cut.super_res_doppler_to_300km", c.super_resolution_control_doppler_to_300km(), raw & 4 != 0);
    chk!("cut.super_res_dual_polarization_to_300km", c.super_resolution_control_dual_polarization_to_300km(), raw & 8 != 0);
    c.channel_configuration = raw;
    let ch = format!("{:?}", c.channel_configuration());
    match raw {
        0 => chk!("cut.channel_configuration", ch.clone(), "ConstantPhase".to_string()),
        1 => chk!("cut.channel_configuration", ch.clone(), "RandomPhase".to_string()),
        2 => chk!("cut.channel_configuration", ch.clone(), "SZ2Phase".to_string()),
        _ => chk!("cut.channel_configuration_undocumented_aliases_documented", ["ConstantPhase", "RandomPhase", "SZ2Phase"].contains(&ch.as_str()), false),
    }
    c.waveform_type = raw;
    let wf = format!("{:?}", c.waveform_type());
    let names = ["CS", "CDW", "CDWO", "B", "SPP"];
    if (1..=5).contains(&raw) {
        chk!("cut.waveform_type", wf.clone(), names[raw as usize - 1].to_string());
    } else {
        chk!("cut.waveform_type_undocumented_aliases_documented", names.contains(&wf.as_str()), false);
    }
    h.doppler_velocity_resolution = raw;
    let exp = match raw {
        2 => Some(0.5),
        4 => Some(1.0),
        _ => None,
    };
    chk!("hdr.doppler_velocity_resolution_mps", h.doppler_velocity_resolution_meters_per_second(), exp);
    #[cfg(feature = "f-uomdec")]
    {
        use uom::si::velocity::meter_per_second;
        chk!("hdr.doppler_velocity_resolution_uom", h.doppler_velocity_resolution().map(|v| v.get::<meter_per_second>()), exp);
    }
    h.pulse_width = raw;
    let pw = format!("{:?}", h.pulse_width());
    match raw {
        2 => chk!("hdr.pulse_width", pw.clone(), "Short".to_string()),
        4 => chk!("hdr.pulse_width", pw.clone(), "Long".to_string()),
        _ => chk!("hdr.pulse_width_undocumented_aliases_documented", pw == "Short" || pw == "Long", false),
    }
}

pub fn run(ctx: &'static Ctx) -> (&'static str, Value, Vec<&'static str>) {
    let mut stats = Stats::new();
    for plan in 0..5u8 {
        for cuts in 0..=51u16 {
            check_layout(ctx, plan, cuts, &mut stats);
            stats.nontrivial(&[b'l', plan, cuts as u8]);
            stats.dim("cuts", cuts);
        }
    }
    for declared in (52u16..=60).chain([100, 255, 256, 1000, 32767, 32768, 65535]) {
        check_overflow_count(ctx, declared, &mut stats);
        stats.nontrivial(&[b'o', (declared >> 8) as u8, declared as u8]);
    }
    // truncated bodies on the direct entry point: declared cuts but fewer present => error
    for declared in 1..=51u16 {
        for present in [0usize, declared as usize - 1] {
            let mut b = body(0, declared, present);
            b.extend_from_slice(&[0u8; 45]); // one byte short of another cut
            stats.eval();
            match guarded(|| vcp::decode_volume_coverage_pattern(&mut b.as_slice())) {
                Caught::Ret(Err(_)) => stats.outcome("short_body_err"),
                Caught::Ret(Ok(_)) => ctx.fail("short_body:accepted", || format!("declared {declared} present {present}"), || json!({"op": "short", "declared": declared, "present": present})),
                Caught::Panic(p) => ctx.fail("short_body:panic", || p.clone(), || json!({"op": "short", "declared": declared, "present": present})),
            }
        }
    }
    let base = base_message();
    let s16: Stats = (0u32..65536)
        .into_par_iter()
        .fold(Stats::new, |mut st, raw| {
            check_raw16(ctx, &base, raw as u16, &mut st);
            st.nontrivial(&[b'r', (raw >> 8) as u8, raw as u8]);
            if raw == 0x8008 || raw == 0x1C70 {
                st.sample(4, || {
                    let mut c = base.elevations[0].clone();
                    c.elevation_angle = raw as u16;
                    c.azimuth_rate = raw as u16;
                    json!({"raw": raw, "elevation_angle_degrees": c.elevation_angle_degrees(), "azimuth_rate_dps": c.azimuth_rate_degrees_per_second()})
                });
            }
            st
        })
        .reduce(Stats::new, Stats::merge);
    // history dimension: consecutive decodes whose raw values differ only in one bit / the low
    // three bits / all bits (a memo keyed on part of the value shows here), on the same thread
    let masks: Vec<u16> = (0..16).map(|b| 1u16 << b).chain([0x0007, 0xFFFF, 0x8007]).collect();
    let sh: Stats = (0u32..65536)
        .into_par_iter()
        .fold(Stats::new, |mut st, raw| {
            let before = ctx.failure_count();
            for &m in &masks {
                check_raw16(ctx, &base, raw as u16, &mut st);
                check_raw16(ctx, &base, raw as u16 ^ m, &mut st);
            }
            check_raw16(ctx, &base, raw as u16, &mut st);
            if ctx.failure_count() > before {
                ctx.fail("history:raw16_accessor_depends_on_previous_decode", || format!("sequence raw {raw:#06x}, raw ^ mask, ... on one thread"), || json!({"op": "history16", "raw": raw}));
            }
            st.count("history_raw_sequences", masks.len() as u64);
            st
        })
        .reduce(Stats::new, Stats::merge);
    let s16 = s16.merge(sh);
    // the raw sweeps again on other base messages: an accessor may depend only on its own field
    let mut s16 = s16;
    for plan in [1u8, 2, 4] {
        let alt = base_message_plan(plan);
        let sa: Stats = (0u32..65536)
            .into_par_iter()
            .fold(Stats::new, |mut st, raw| {
                check_raw16(ctx, &alt, raw as u16, &mut st);
                if raw < 256 {
                    check_raw8(ctx, &alt, raw as u8, &mut st);
                }
                st
            })
            .reduce(Stats::new, Stats::merge);
        s16 = s16.merge(sa);
    }
    // short-read environment for the message decoder
    let mut ssr = Stats::new();
    {
        use crate::guard::{short_read_check, SplitReader};
        for (plan, cuts) in [(0u8, 0u16), (0, 1), (1, 3), (2, 51)] {
            let bytes = body(plan, cuts, cuts as usize);
            let n = short_read_check(ctx, "decode_volume_coverage_pattern", &bytes, cuts <= 3, |r: &mut SplitReader| vcp::decode_volume_coverage_pattern(r).ok(), |shape| json!({"op": "short_read", "plan": plan, "cuts": cuts, "boundaries": shape.0, "max_chunk": shape.1}));
            ssr.evaluations += n;
            ssr.count("short_read_shapes", n);
            let n = crate::guard::two_actor_check(ctx, "decode_volume_coverage_pattern", &bytes, 32, |r: &mut SplitReader| vcp::decode_volume_coverage_pattern(r).ok(), |mode, k| json!({"op": "short_read", "plan": plan, "cuts": cuts, "mode": mode, "read_call": k}));
            ssr.evaluations += n;
            ssr.count("two_actor_schedules", n);
        }
    }
    let s16 = s16.merge(ssr);
    let mut s8 = Stats::new();
    for raw in 0..=255u8 {
        check_raw8(ctx, &base, raw, &mut s8);
        s8.nontrivial(&[b'b', raw]);
    }
    let stats = stats.merge(s16).merge(s8);
    let cov = stats.coverage(
        "5 value plans x all cut counts 0..=51 (every header and cut field compared with the bytes at its table offset, direct and frame path); declared counts {52..60,100,255,256,1000,32767,32768,65535} must be errors; short bodies; all 65536 raw values through every 16-bit scaled/bit accessor (plain and uom); all 256 through every byte-wide accessor; history: for every raw value the sequence raw, raw^mask, raw on one thread for 19 masks (each single bit, 0x0007, 0x8007, 0xFFFF); short-read reader shapes for the message decoder. non-trivial = distinct (plan,cuts) / raw value",
        true,
        json!({"plans": 5, "cuts": "0..=51"}),
    );
    (
        "exploration",
        cov,
        vec![
            "offset/bit tables transcribed from the ICD (DESIGN Appendix A/B)",
            "raw-value sweeps set the public wire field on a decoded struct",
            "uom accessors compared with 1e-9 relative tolerance (radian round trip)",
        ],
    )
}

pub fn replay(ctx: &'static Ctx, case: &Value) {
    let mut st = Stats::new();
    let base = base_message();
    match case["op"].as_str() {
        Some("layout") => check_layout(ctx, case["plan"].as_u64().unwrap_or(0) as u8, case["cuts"].as_u64().unwrap_or(0) as u16, &mut st),
        Some("overflow") => check_overflow_count(ctx, case["declared"].as_u64().unwrap_or(52) as u16, &mut st),
        Some("raw16") => check_raw16(ctx, &base, case["raw"].as_u64().unwrap_or(0) as u16, &mut st),
        Some("history16") => {
            let raw = case["raw"].as_u64().unwrap_or(0) as u16;
            for b in 0..16 {
                check_raw16(ctx, &base, raw, &mut st);
                check_raw16(ctx, &base, raw ^ (1 << b), &mut st);
            }
            check_raw16(ctx, &base, raw, &mut st);
        }
        Some("raw8") => check_raw8(ctx, &base, case["raw"].as_u64().unwrap_or(0) as u8, &mut st),
        _ => {
            let _ = run(ctx);
        }
    }
    println!("replay C11 {:?} -> {:?}", case, st.outcomes);
}
