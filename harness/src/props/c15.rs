//! C15 — latest-volume discovery finds the newest of all 999 volume directories.
//! Search level: every bucket shape (newest position, populated count) at N = 999 and for every
//! N in 1..=64, driven through the real rotated search with in-memory arrays (hook 2).
//! Production level: `get_latest_volume` against the S3 simulator (hook 1), with a conformance
//! check that the directories it requests are exactly the search-level probe trace.

use crate::core::*;
use crate::s3sim::*;
use nexrad_data::aws::realtime::{get_latest_volume, verif_hooks};
use rayon::prelude::*;
use serde_json::{json, Value};
use std::cell::RefCell;
use std::sync::{Arc, Mutex};

/// value of directory index i (0-based) in shape (n, p, c): populated iff within c steps back from p
#[inline]
fn shape_value(n: usize, p: usize, c: usize, i: usize) -> Option<i64> {
    let back = (p + n - i) % n;
    if back < c {
        Some((c - back) as i64)
    } else {
        None
    }
}

pub fn search_trace(n: usize, p: usize, c: usize) -> (Caught<Result<Option<usize>, String>>, Vec<usize>) {
    let trace = RefCell::new(Vec::new());
    let r = guarded(|| {
        block_on_ready(verif_hooks::search(n, i64::MAX, |i| {
            trace.borrow_mut().push(i);
            let v = if i < n { shape_value(n, p, c, i) } else { None };
            async move { Ok(v) }
        }))
        .map_err(|e| format!("{:?}", e))
    });
    (r, trace.into_inner())
}

fn log2_ceil(n: usize) -> usize {
    let mut k = 0;
    while (1usize << k) < n {
        k += 1;
    }
    k
}

fn shape_class(n: usize, p: usize, c: usize) -> String {
    let pc = if p == n - 1 { "p=last" } else if p == 0 { "p=first" } else { "p=mid" };
    let cc = if c == 0 { "c=0" } else if c == n { "c=full" } else if c == 1 { "c=1" } else { "c=partial" };
    let wrapped = c > p + 1 && c < n;
    format!("{pc}:{cc}:{}", if wrapped { "wrapped" } else { "unwrapped" })
}

fn check_shape(ctx: &Ctx, n: usize, p: usize, c: usize, st: &mut Stats) {
    let (r, trace) = search_trace(n, p, c);
    st.evaluations += 1;
    *st.counters.entry("probe_calls".into()).or_insert(0) += trace.len() as u64;
    let wit = || json!({"op": "shape", "n": n, "p": p, "c": c});
    let size = if n == 999 { "N=999".to_string() } else { "N<=64".to_string() };
    match r {
        Caught::Panic(pn) => ctx.fail(&format!("search:panic:{size}"), || format!("n={n} p={p} c={c}: {pn}"), wit),
        Caught::Ret(Err(e)) => ctx.fail(&format!("search:error:{size}"), || format!("n={n} p={p} c={c}: {e}"), wit),
        Caught::Ret(Ok(got)) => {
            let exp = if c == 0 { None } else { Some(p) };
            if got != exp {
                let kind = match (got, exp) {
                    (None, Some(_)) => "none_but_populated",
                    (Some(_), None) => "some_but_empty",
                    _ => "stale_directory",
                };
                ctx.fail(
                    &format!("search:{kind}:{size}:{}", shape_class(n, p, c)),
                    || format!("n={n} newest index {p} populated {c}: search returned {:?} after {} probes", got, trace.len()),
                    wit,
                );
                *st.counters.entry("wrong_answers".into()).or_insert(0) += 1;
            }
        }
    }
    // 'never exceeds the directory count by more than a logarithmic term'
    let bound = n + 2 * log2_ceil(n + 1) + 4;
    if trace.len() > bound {
        ctx.fail(&format!("search:too_many_probes:{size}"), || format!("n={n} p={p} c={c}: {} probes, bound {bound}", trace.len()), wit);
    }
    if trace.iter().any(|i| *i >= n) {
        ctx.fail(&format!("search:probe_out_of_range:{size}"), || format!("n={n} p={p} c={c}: {:?}", trace.iter().find(|i| **i >= n)), wit);
    }
    let e = st.counters.entry("max_probes".into()).or_insert(0);
    *e = (*e).max(trace.len() as u64);
}

// ---- production level ------------------------------------------------------------------------

const SITE: &str = "KDMX";
const BASE_MS: i64 = 1_723_550_000_000;

struct Bucket {
    p: usize,
    c: usize,
    requested: Vec<usize>,
    requested_raw: Vec<String>,
    odd: Vec<String>,
}

fn install_bucket(sim: &Sim, p: usize, c: usize) -> Arc<Mutex<Bucket>> {
    let state = Arc::new(Mutex::new(Bucket { p, c, requested: vec![], requested_raw: vec![], odd: vec![] }));
    let st2 = state.clone();
    sim.set_handler(Box::new(move |req| {
        let mut b = st2.lock().unwrap_or_else(|e| e.into_inner());
        match req {
            Request::List { bucket, prefix, max_keys, continuation, .. } => {
                // true S3 semantics: every key that starts with the prefix, in UTF-8 binary key order
                b.requested_raw.push(prefix.clone());
                if let Some(d) = prefix.strip_prefix("KDMX/").and_then(|r| r.strip_suffix('/')).and_then(|d| d.parse::<usize>().ok()) {
                    if (1..=999).contains(&d) {
                        b.requested.push(d);
                    }
                }
                let dirs: Vec<usize> = match prefix.strip_prefix("KDMX/") {
                    Some(rest) => match rest.split_once('/') {
                        Some((d, _)) => d.parse::<usize>().ok().into_iter().collect(),
                        None => (1..=999usize).filter(|v| v.to_string().starts_with(rest)).collect(),
                    },
                    None => vec![],
                };
                let mut objs: Vec<Obj> = Vec::new();
                if bucket == "unidata-nexrad-level2-chunks" {
                    for d in dirs {
                        if !(1..=999).contains(&d) {
                            continue;
                        }
                        if let Some(rank) = shape_value(999, b.p, b.c, d - 1) {
                            for s in 1..=3usize {
                                let o = Obj {
                                    key: format!("KDMX/{d}/20240813-{:06}-{:03}-{}", rank % 1_000_000, s, if s == 1 { "S" } else { "I" }),
                                    modified_ms: BASE_MS + rank * 60_000 + s as i64 * 5_000,
                                    size_text: "1000".into(),
                                    fractional: true,
                                };
                                if o.key.starts_with(prefix.as_str()) {
                                    objs.push(o);
                                }
                            }
                        }
                    }
                }
                objs.sort_by(|a, b| a.key.as_bytes().cmp(b.key.as_bytes()));
                // ListObjectsV2 paging: a page cut short by max-keys carries a continuation token
                match page(&objs, *max_keys, continuation) {
                    Ok((pg, next)) => Response::xml(200, list_xml_tok(bucket, prefix, &pg, next.is_some(), 0, next.as_deref())),
                    Err(()) => Response::xml(400, invalid_argument_xml()),
                }
            }
            other => {
                b.odd.push(other.raw().to_string());
                Response::xml(404, not_found_xml("x"))
            }
        }
    }));
    state
}

fn production_run(sim: &Sim, rt: &tokio::runtime::Runtime, p: usize, c: usize) -> (Caught<Result<(Option<usize>, usize), String>>, Vec<usize>, Vec<String>, usize) {
    let state = install_bucket(sim, p, c);
    let r = guarded(|| rt.block_on(get_latest_volume(SITE)).map(|r| (r.volume.map(|v| v.as_number()), r.calls)).map_err(|e| format!("{:?}", e)));
    sim.clear_handler();
    let b = state.lock().unwrap_or_else(|e| e.into_inner());
    (r, b.requested.clone(), b.odd.clone(), b.requested_raw.len())
}

fn check_production(ctx: &Ctx, sim: &Sim, rt: &tokio::runtime::Runtime, p: usize, c: usize, st: &mut Stats) -> bool {
    // p is the 0-based index of the newest directory (directory number p + 1)
    let (r, requested, odd, list_requests) = production_run(sim, rt, p, c);
    st.evaluations += 1;
    *st.counters.entry("simulator_requests".into()).or_insert(0) += requested.len() as u64;
    let clock = crate::clock::thread_now_ms();
    let framing = FRAMINGS.iter().position(|f| *f == default_framing()).unwrap_or(0);
    let wit = || json!({"op": "production", "newest_directory": p + 1, "populated": c, "now_ms": clock, "framing": framing});
    let cls = match clock {
        Some(_) => format!("{}:wall_clock_moved", shape_class(999, p, c)),
        None => shape_class(999, p, c),
    };
    let mut conforms = false;
    match r {
        Caught::Panic(pn) => ctx.fail("latest_volume:panic", || pn.clone(), wit),
        Caught::Ret(Err(e)) => ctx.fail("latest_volume:error", || format!("dir {} c {c}: {e}", p + 1), wit),
        Caught::Ret(Ok((vol, calls))) => {
            let exp = if c == 0 { None } else { Some(p + 1) };
            if vol != exp {
                ctx.fail(&format!("latest_volume:wrong_directory:{cls}"), || format!("newest directory {} populated {c}: got {:?} ({} listing requests)", p + 1, vol, requested.len()), wit);
            }
            if calls != list_requests {
                ctx.fail("latest_volume:call_count_ne_requests_issued", || format!("dir {} c {c}: reported {calls}, simulator saw {list_requests} listing requests", p + 1), wit);
            }
            if calls > 999 + 2 * 10 + 4 {
                ctx.fail("latest_volume:too_many_calls", || format!("dir {} c {c}: {calls}", p + 1), wit);
            }
            // conformance with the search-level run on the same shape
            let (_, trace) = search_trace(999, p, c);
            let expected_dirs: Vec<usize> = trace.iter().map(|i| i + 1).collect();
            if requested != expected_dirs {
                // not a verdict by itself: the property constrains the answer and the call count, not
                // the request sequence. A production entry point that no longer follows the search's
                // probe trace loses the binding to the 998,002-shape sweep, so the caller switches
                // to the extended production-level sweep instead.
                st.count("production_runs_not_conforming_to_search_trace", 1);
            } else {
                conforms = true;
            }
        }
    }
    if !odd.is_empty() {
        st.count("executions_with_non_listing_requests", 1);
    }
    conforms
}

/// Two lookups polled concurrently by one task on one runtime (`tokio::join!`), optionally next to an
/// unrelated listing call: each must find the newest directory, and the two reported call counts
/// must add up to the listing requests the simulator saw for them.
fn check_production_concurrent(ctx: &Ctx, sim: &Sim, rt: &tokio::runtime::Runtime, p: usize, c: usize, with_other_call: bool, st: &mut Stats) {
    use nexrad_data::aws::realtime::{list_chunks_in_volume, VolumeIndex};
    let state = install_bucket(sim, p, c);
    st.evaluations += 1;
    let wit = || json!({"op": "production_concurrent", "newest_directory": p + 1, "populated": c, "with_other_call": with_other_call});
    let r = guarded(|| {
        rt.block_on(async {
            if with_other_call {
                let (a, _l, b) = tokio::join!(get_latest_volume(SITE), list_chunks_in_volume(SITE, VolumeIndex::new(p + 1), 100), get_latest_volume(SITE));
                (a.map(|r| (r.volume.map(|v| v.as_number()), r.calls)).map_err(|e| format!("{e:?}")), b.map(|r| (r.volume.map(|v| v.as_number()), r.calls)).map_err(|e| format!("{e:?}")))
            } else {
                let (a, b) = tokio::join!(get_latest_volume(SITE), get_latest_volume(SITE));
                (a.map(|r| (r.volume.map(|v| v.as_number()), r.calls)).map_err(|e| format!("{e:?}")), b.map(|r| (r.volume.map(|v| v.as_number()), r.calls)).map_err(|e| format!("{e:?}")))
            }
        })
    });
    sim.clear_handler();
    let total = state.lock().unwrap_or_else(|e| e.into_inner()).requested_raw.len();
    let other = if with_other_call { 1 } else { 0 };
    let exp = if c == 0 { None } else { Some(p + 1) };
    match r {
        Caught::Panic(pn) => ctx.fail("latest_volume:panic", || pn.clone(), wit),
        Caught::Ret((Ok((va, ca)), Ok((vb, cb)))) => {
            if va != exp || vb != exp {
                ctx.fail("concurrent:latest_volume_wrong_directory", || format!("newest {} populated {c}: two concurrent lookups returned {:?} and {:?}", p + 1, va, vb), wit);
            }
            if ca + cb + other != total {
                ctx.fail("concurrent:call_counts_do_not_add_up_to_requests_issued", || format!("newest {} populated {c}: reported {ca} + {cb} calls, the simulator served {} listing requests to the two lookups", p + 1, total - other), wit);
            }
            st.outcome("concurrent_ok");
        }
        Caught::Ret(other_r) => ctx.fail("concurrent:latest_volume_error", || format!("{:?}", other_r), wit),
    }
    st.count("concurrent_lookup_pairs", 1);
}

pub fn run(ctx: &'static Ctx) -> (&'static str, Value, Vec<&'static str>) {
    let thorough = ctx.tier.thorough();
    // search level, N = 999: every (p, c)
    let s1: Stats = (0..999usize)
        .into_par_iter()
        .fold(Stats::new, |mut st, p| {
            for c in 1..=999usize {
                check_shape(ctx, 999, p, c, &mut st);
            }
            if p == 0 {
                check_shape(ctx, 999, 0, 0, &mut st);
            }
            st.nontrivial(format!("P{p}").as_bytes());
            st
        })
        .reduce(|| Stats::new(), merge_max);
    // every N in 1..=64
    let s2: Stats = (1..=64usize)
        .into_par_iter()
        .fold(Stats::new, |mut st, n| {
            check_shape(ctx, n, 0, 0, &mut st);
            for p in 0..n {
                for c in 1..=n {
                    check_shape(ctx, n, p, c, &mut st);
                    st.nontrivial(format!("n{n}/{p}/{c}").as_bytes());
                }
            }
            st
        })
        .reduce(|| Stats::new(), merge_max);
    // production level
    let sim = Sim::start();
    let rt = runtime();
    let mut s3 = Stats::new();
    let mut states: Vec<(usize, usize)> = Vec::new();
    for &p in &[1usize, 2, 3, 500, 997, 998, 999] {
        for &c in &[0usize, 1, 2, 3, 54, 500, 997, 998, 999] {
            states.push((p - 1, c));
        }
    }
    if thorough {
        for p in 0..999 {
            states.push((p, 999));
            if p % 10 == 0 {
                states.push((p, 2));
                states.push((p, 1));
                states.push((p, 500));
            }
        }
    } else {
        for p in (0..999).step_by(37) {
            states.push((p, 999));
            states.push((p, 600));
        }
    }
    // shapes in which an empty directory's number is a string prefix of a populated one
    // (a listing prefix without its trailing slash would see the other directory's chunks)
    for (p, c) in [(106usize, 80usize), (999, 1), (199, 100), (120, 21), (19, 10), (30, 25), (1000 - 1, 900), (109, 10), (500, 401)] {
        states.push((p - 1, c));
    }
    states.sort();
    states.dedup();
    let mut conforming = 0u64;
    for (p, c) in &states {
        if check_production(ctx, &sim, &rt, *p, *c, &mut s3) {
            conforming += 1;
        }
        s3.nontrivial(format!("prod{p}/{c}").as_bytes());
        s3.dim("production_populated", c);
    }
    // wall-clock dimension: the answer is a function of the bucket alone. The thread's wall clock
    // is moved around the newest directory's upload time (and decades away from it).
    for (p, c) in [(0usize, 1usize), (300, 301), (998, 999), (1, 999), (499, 3), (120, 500)] {
        let newest_ms = BASE_MS + c as i64 * 60_000 + 5_000;
        for delta in [-20 * 365 * 86_400_000i64, -86_400_000, -900_000, -90_000, -61_000, -1_000, 0, 1_000, 86_400_000, 80 * 365 * 86_400_000] {
            crate::clock::with_thread_now_ms(newest_ms + delta, || check_production(ctx, &sim, &rt, p, c, &mut s3));
            s3.count("production_runs_with_wall_clock_moved", 1);
        }
    }
    // two lookups in flight at once on one runtime
    for (p, c) in [(0usize, 1usize), (300, 301), (998, 999), (1, 999), (499, 3), (5, 0)] {
        for with_other in [false, true] {
            check_production_concurrent(ctx, &sim, &rt, p, c, with_other, &mut s3);
        }
    }
    // body framing of the listing responses (S3 itself answers listings with chunked transfer encoding)
    for f in 1..FRAMINGS.len() {
        set_default_framing(FRAMINGS[f]);
        for (p, c) in [(0usize, 1usize), (300, 301), (998, 999), (1, 999), (499, 3), (120, 500), (5, 0)] {
            check_production(ctx, &sim, &rt, p, c, &mut s3);
            s3.count("production_runs_with_other_body_framing", 1);
        }
        set_default_framing(Framing::Length);
    }
    if (conforming as usize) < states.len() {
        // degraded mode: production no longer replays the search's probe trace, so the search-level
        // sweep says nothing about it; explore many more bucket states directly (ascending newest
        // position, so consecutive calls see a bucket that advances, as in reality)
        println!("NOTE C15: {} of {} production runs did not follow the search-level probe trace; running the extended production-level sweep", states.len() - conforming as usize, states.len());
        let mut ext: Vec<(usize, usize)> = Vec::new();
        for c in [999usize, 500, 100, 3] {
            for p in 0..999 {
                ext.push((p, c));
            }
        }
        for p in (0..999).step_by(9) {
            ext.push((p, 1));
            ext.push((p, 2));
        }
        for (p, c) in &ext {
            check_production(ctx, &sim, &rt, *p, *c, &mut s3);
            s3.count("extended_production_states", 1);
        }
    }
    s3.sample(3, || {
        let (r, req, _, _) = production_run(&sim, &rt, 998, 2);
        json!({"production": {"newest_directory": 999, "populated": 2}, "result": format!("{:?}", r.ret()), "directories_requested": req.len(), "first_requests": req.iter().take(12).collect::<Vec<_>>()})
    });
    s3.sample(3, || {
        let (r, t) = search_trace(2, 0, 2);
        json!({"search_level": {"n": 2, "newest_index": 0, "populated": 2, "values": [shape_value(2,0,2,0), shape_value(2,0,2,1)]}, "result": format!("{:?}", r.ret()), "probe_trace": t})
    });
    let total_states = s1.evaluations + s2.evaluations;
    let transitions = s1.counters.get("probe_calls").copied().unwrap_or(0) + s2.counters.get("probe_calls").copied().unwrap_or(0);
    let stats = merge_max(merge_max(s1, s2), s3);
    let mut cov = stats.coverage(
        "search level: all 998,002 shapes (newest position x populated count, distinct upload ranks = every order type a comparison search can observe) at N = 999 and all shapes for every N in 1..=64, through the real rotated search (target = MAX); production level: get_latest_volume against the S3 simulator for newest directory in {1,2,3,500,997,998,999} x populated in {0,1,2,3,54,500,997,998,999} plus a sweep over newest positions; conformance = the directories requested by production equal (index + 1 of) the search-level probe trace on the same shape. states = shapes explored, transitions = probe calls answered. non-trivial = distinct newest position / (N,p,c) / production state",
        true,
        json!({"production_states": states.len()}),
    );
    cov["states"] = json!(total_states);
    cov["transitions"] = json!(transitions);
    cov["traces_validated_against_impl"] = json!(conforming);
    drop(sim);
    (
        "model_checking",
        cov,
        vec![
            "verif-hooks: public wrapper of the crate-private search; S3 endpoint override",
            "bucket shape = one contiguous populated run in rotation order with distinct upload times",
            "simulator HTTP framing; tokio paused clock",
        ],
    )
}

/// Stats::merge but `max_probes` is a maximum, not a sum
fn merge_max(a: Stats, b: Stats) -> Stats {
    let ma = a.counters.get("max_probes").copied().unwrap_or(0);
    let mb = b.counters.get("max_probes").copied().unwrap_or(0);
    let mut m = a.merge(b);
    m.counters.insert("max_probes".into(), ma.max(mb));
    m
}

pub fn replay(ctx: &'static Ctx, case: &Value) {
    let mut st = Stats::new();
    match case["op"].as_str() {
        Some("shape") => {
            let (n, p, c) = (case["n"].as_u64().unwrap_or(1) as usize, case["p"].as_u64().unwrap_or(0) as usize, case["c"].as_u64().unwrap_or(0) as usize);
            let (r, t) = search_trace(n, p, c);
            println!("replay shape n={n} p={p} c={c}: result {:?} probes {:?}", r.ret(), &t[..t.len().min(40)]);
            check_shape(ctx, n, p, c, &mut st);
        }
        Some("production") => {
            let sim = Sim::start();
            let rt = runtime();
            let p = case["newest_directory"].as_u64().unwrap_or(1) as usize - 1;
            let c = case["populated"].as_u64().unwrap_or(0) as usize;
            set_default_framing(FRAMINGS[case["framing"].as_u64().unwrap_or(0) as usize % FRAMINGS.len()]);
            match case["now_ms"].as_i64() {
                Some(ms) => {
                    crate::clock::with_thread_now_ms(ms, || check_production(ctx, &sim, &rt, p, c, &mut st));
                }
                None => {
                    check_production(ctx, &sim, &rt, p, c, &mut st);
                }
            }
        }
        Some("production_concurrent") => {
            let sim = Sim::start();
            let rt = runtime();
            let p = case["newest_directory"].as_u64().unwrap_or(1) as usize - 1;
            let c = case["populated"].as_u64().unwrap_or(0) as usize;
            check_production_concurrent(ctx, &sim, &rt, p, c, case["with_other_call"].as_bool().unwrap_or(false), &mut st);
        }
        _ => machinery("C15 replay: unknown op"),
    }
}
