//! C10 — message header: layout, type mapping and size semantics.
//! E3, exhaustive: all 256 type codes, all 65 536 size values x boundary (count, number) pairs,
//! full count and number planes for size = 0xFFFF, layout under distinct-value plans; type x size cross product.

use crate::core::*;
use crate::enc::*;
use nexrad_decode::messages as dm;
use nexrad_decode::messages::MessageType as MT;
use rayon::prelude::*;
use serde_json::{json, Value};

fn decode(h: &MsgHeader) -> dm::message_header::MessageHeader {
    dm::decode_message_header(&mut h.encode().as_slice()).expect("28 bytes decode")
}

/// code -> own variant, transcribed from the enum discriminants (provenance D).
fn defined_types() -> Vec<(u8, MT)> {
    vec![
        (1, MT::RDADigitalRadarData),
        (2, MT::RDAStatusData),
        (3, MT::RDAPerformanceMaintenanceData),
        (4, MT::RDAConsoleMessage),
        (5, MT::RDAVolumeCoveragePattern),
        (6, MT::RDAControlCommands),
        (7, MT::RPGVolumeCoveragePattern),
        (8, MT::RPGClutterCensorZones),
        (9, MT::RPGRequestForData),
        (10, MT::RPGConsoleMessage),
        (11, MT::RDALoopBackTest),
        (12, MT::RPGLoopBackTest),
        (13, MT::RDAClutterFilterBypassMap),
        (14, MT::Spare1),
        (15, MT::RDAClutterFilterMap),
        (16, MT::ReservedFAARMSOnly1),
        (17, MT::ReservedFAARMSOnly2),
        (18, MT::RDAAdaptationData),
        (20, MT::Reserved1),
        (21, MT::Reserved2),
        (22, MT::Reserved3),
        (23, MT::Reserved4),
        (24, MT::ReservedFAARMSOnly3),
        (25, MT::ReservedFAARMSOnly4),
        (26, MT::ReservedFAARMSOnly5),
        (29, MT::Reserved5),
        (31, MT::RDADigitalRadarDataGenericFormat),
        (32, MT::RDAPRFData),
        (33, MT::RDALogData),
    ]
}

fn size_class(size: u16) -> &'static str {
    match size {
        0xFFFF => "variable",
        0x8000..=0xFFFE => "segmented_size>=32768",
        _ => "segmented_size<32768",
    }
}

/// All size-semantics clauses for one header.
fn check_sizes(ctx: &Ctx, size: u16, count: u16, number: u16, st: &mut Stats) {
    check_sizes_t(ctx, 2, size, count, number, st)
}

fn check_sizes_t(ctx: &Ctx, typ: u8, size: u16, count: u16, number: u16, st: &mut Stats) {
    #[cfg(feature = "f-uomdec")]
    use uom::si::information::byte;
    let mut h = MsgHeader::simple(typ, 19000, 1000);
    h.size = size;
    h.count = count;
    h.number = number;
    let wit = || json!({"op": "sizes", "type": typ, "size": size, "count": count, "number": number});
    let cls = if typ == 2 { size_class(size).to_string() } else { format!("{}:type_other_than_2", size_class(size)) };
    let cls = cls.as_str();
    let d = decode(&h);
    st.eval();
    macro_rules! acc {
        ($name:expr, $e:expr) => {
            match guarded(|| $e) {
                Caught::Ret(v) => Some(v),
                Caught::Panic(p) => {
                    ctx.fail(&format!("sizes:{}:panic:{}", $name, cls), || format!("size={size} count={count} number={number}: {p}"), wit);
                    None
                }
            }
        };
    }
    let segmented = acc!("segmented", d.segmented());
    let seg_count = acc!("segment_count", d.segment_count());
    let seg_number = acc!("segment_number", d.segment_number());
    let bytes = acc!("message_size_bytes", d.message_size_bytes());
    #[cfg(feature = "f-uomdec")]
    let uom_size = acc!("message_size", d.message_size().get::<byte>());
    #[cfg(feature = "f-uomdec")]
    let seg_size = acc!("segment_size", d.segment_size().map(|x| x.get::<byte>()));
    // build-configuration variants without uom: the unit-typed accessors do not exist
    #[cfg(not(feature = "f-uomdec"))]
    let uom_size: Option<f64> = None;
    #[cfg(not(feature = "f-uomdec"))]
    let seg_size: Option<Option<f64>> = None;
    let _ = acc!("debug", format!("{:?}", d.segment_size));

    let is_seg = size != 0xFFFF;
    if let Some(s) = segmented {
        if s != is_seg {
            ctx.fail(&format!("sizes:segmented:wrong:{cls}"), || format!("size={size}: segmented()={s}"), wit);
        }
    }
    let exp_bytes: u32 = if is_seg { size as u32 * 2 } else { ((count as u32) << 16) | number as u32 };
    if let Some(b) = bytes {
        if b != exp_bytes {
            ctx.fail(&format!("sizes:message_size_bytes:wrong:{cls}"), || format!("size={size} count={count} number={number}: got {b} expected {exp_bytes}"), wit);
        }
    }
    if let Some(u) = uom_size {
        if u != exp_bytes as f64 {
            ctx.fail(&format!("sizes:message_size_uom:wrong:{cls}"), || format!("size={size} count={count} number={number}: got {u} expected {exp_bytes}"), wit);
        }
    }
    if let (Some(b), Some(u)) = (bytes, uom_size) {
        if b as f64 != u {
            ctx.fail(&format!("sizes:uom_and_plain_disagree:{cls}"), || format!("size={size} count={count} number={number}: bytes={b} uom={u}"), wit);
        }
    }
    if let Some(c) = seg_count {
        let e = if is_seg { Some(count) } else { None };
        if c != e {
            ctx.fail(&format!("sizes:segment_count:wrong:{cls}"), || format!("got {:?} expected {:?}", c, e), wit);
        }
    }
    if let Some(n) = seg_number {
        let e = if is_seg { Some(number) } else { None };
        if n != e {
            ctx.fail(&format!("sizes:segment_number:wrong:{cls}"), || format!("got {:?} expected {:?}", n, e), wit);
        }
    }
    if let Some(s) = seg_size {
        let e = if is_seg { Some(size as f64 * 2.0) } else { None };
        if s != e {
            ctx.fail(&format!("sizes:segment_size_uom:wrong:{cls}"), || format!("size={size}: got {:?} expected {:?}", s, e), wit);
        }
    }
    st.outcome(cls);
}

fn check_type(ctx: &Ctx, code: u8, st: &mut Stats) {
    let h = MsgHeader::simple(code, 19000, 1000);
    let d = decode(&h);
    st.eval();
    let wit = || json!({"op": "type", "code": code});
    let got = match guarded(|| d.message_type()) {
        Caught::Ret(v) => v,
        Caught::Panic(p) => {
            ctx.fail("type:panic", || p.clone(), wit);
            return;
        }
    };
    let table = defined_types();
    match table.iter().find(|(c, _)| *c == code) {
        Some((_, exp)) => {
            if got != *exp {
                ctx.fail("type:defined_code_wrong_variant", || format!("code {code}: got {:?} expected {:?}", got, exp), wit);
            }
            st.outcome("type_defined");
        }
        None => {
            if got != MT::Unknown(code) {
                ctx.fail("type:undefined_code_not_preserved", || format!("code {code}: got {:?}", got), wit);
            }
            st.outcome("type_unknown");
        }
    }
    if d.message_type != code {
        ctx.fail("type:raw_field", || format!("code {code}"), wit);
    }
}

fn check_channels(ctx: &Ctx, st: &mut Stats) {
    let mut seen = Vec::new();
    for code in [0u8, 1, 2, 8, 9, 10] {
        let mut h = MsgHeader::simple(2, 19000, 1000);
        h.channel = code;
        let d = decode(&h);
        st.eval();
        let wit = || json!({"op": "channel", "code": code});
        match guarded(|| d.rda_redundant_channel()) {
            Caught::Panic(p) => ctx.fail("channel:panic_on_defined_code", || p.clone(), wit),
            Caught::Ret(c) => {
                let name = format!("{:?}", c);
                let exp = match code {
                    0 => "LegacySingleChannel",
                    1 => "LegacyRedundantChannel1",
                    2 => "LegacyRedundantChannel2",
                    8 => "ORDASingleChannel",
                    9 => "ORDARedundantChannel1",
                    _ => "ORDARedundantChannel2",
                };
                if name != exp {
                    ctx.fail("channel:wrong", || format!("code {code}: {name} expected {exp}"), wit);
                }
                seen.push(name);
            }
        }
    }
    seen.sort();
    seen.dedup();
    if seen.len() != 6 {
        ctx.fail("channel:not_injective", || format!("{:?}", seen), || json!({"op": "channels"}));
    }
}

/// layout: every field decodes from its ICD offset (two complementary plans + extremes)
fn check_layout(ctx: &Ctx, plan: u8, st: &mut Stats) {
    let bytes: Vec<u8> = (0..28u32)
        .map(|i| match plan {
            0 => (i * 7 + 13) as u8,
            1 => !((i * 7 + 13) as u8),
            2 => (i * 37 + 101) as u8,
            3 => 0x00,
            _ => 0xFF,
        })
        .collect();
    let d = dm::decode_message_header(&mut bytes.as_slice()).expect("decodes");
    st.eval();
    let fields: Vec<(&str, usize, usize, u64)> = vec![
        ("segment_size", 12, 2, d.segment_size as u64),
        ("redundant_channel", 14, 1, d.redundant_channel as u64),
        ("message_type", 15, 1, d.message_type as u64),
        ("sequence_number", 16, 2, d.sequence_number as u64),
        ("date", 18, 2, d.date as u64),
        ("time", 20, 4, d.time as u64),
        ("segment_count", 24, 2, d.segment_count as u64),
        ("segment_number", 26, 2, d.segment_number as u64),
    ];
    for (name, off, w, got) in fields {
        let exp = rd(&bytes, off, w);
        if got != exp {
            ctx.fail(
                &format!("layout:{name}"),
                || format!("plan {plan}: field {name} = {got:#x}, bytes at offset {off} hold {exp:#x}"),
                || json!({"op": "layout", "plan": plan}),
            );
        }
    }
    // stream position: exactly 28 bytes consumed
    let mut longer = bytes.clone();
    longer.extend_from_slice(&[0xEE; 8]);
    let mut rdr = longer.as_slice();
    let _ = dm::decode_message_header(&mut rdr);
    if rdr.len() != 8 {
        ctx.fail("layout:consumed_length", || format!("header decode consumed {} bytes", longer.len() - rdr.len()), || json!({"op": "layout", "plan": plan}));
    }
}

pub fn run(ctx: &'static Ctx) -> (&'static str, Value, Vec<&'static str>) {
    let thorough = ctx.tier.thorough();
    let mut stats = Stats::new();
    for code in 0..=255u8 {
        check_type(ctx, code, &mut stats);
        stats.nontrivial(&[b't', code]);
    }
    // injectivity over all 256 codes
    {
        let mut seen = std::collections::HashSet::new();
        for code in 0..=255u8 {
            let d = decode(&MsgHeader::simple(code, 1, 0));
            if let Caught::Ret(t) = guarded(|| d.message_type()) {
                if !seen.insert(format!("{:?}", t)) {
                    ctx.fail("type:not_injective", || format!("code {code} collides: {:?}", t), || json!({"op": "type", "code": code}));
                }
            }
        }
    }
    check_channels(ctx, &mut stats);
    for plan in 0..5 {
        check_layout(ctx, plan, &mut stats);
    }
    let b: Vec<u16> = vec![0, 1, 2, 0x7FFF, 0x8000, 0xFFFE, 0xFFFF];
    let s1: Stats = (0u32..65536)
        .into_par_iter()
        .fold(Stats::new, |mut st, size| {
            for &c in &b {
                for &n in &b {
                    check_sizes(ctx, size as u16, c, n, &mut st);
                }
            }
            st.nontrivial(&[b's', (size >> 8) as u8, size as u8]);
            if size == 0xFFFF || size == 1208 || size == 0x8000 {
                st.sample(6, || {
                    let mut h = MsgHeader::simple(31, 19000, 0);
                    h.size = size as u16;
                    h.count = 1;
                    h.number = 2;
                    let d = decode(&h);
                    json!({"size": size, "count": 1, "number": 2, "segmented": guarded(|| d.segmented()).ret(), "message_size_bytes": guarded(|| d.message_size_bytes()).ret()})
                });
            }
            st
        })
        .reduce(Stats::new, Stats::merge);
    // full planes for the variable-length size and (thorough) 63 more sizes
    let mut plane_sizes: Vec<u16> = vec![0xFFFF];
    if thorough {
        plane_sizes.extend((0..63u32).map(|i| (i * 1040 + 7) as u16));
    }
    let s2: Stats = (0u32..65536)
        .into_par_iter()
        .fold(Stats::new, |mut st, x| {
            for &sz in &plane_sizes {
                for &y in &b {
                    check_sizes(ctx, sz, x as u16, y, &mut st);
                    check_sizes(ctx, sz, y, x as u16, &mut st);
                }
            }
            st.nontrivial(&[b'p', (x >> 8) as u8, x as u8]);
            st
        })
        .reduce(Stats::new, Stats::merge);
    // size semantics must not depend on the type code: all 256 type codes x all 65536 sizes
    // (one count/number pair each) and x the boundary sizes with all 49 pairs; channel codes crossed too
    let s3: Stats = (0u32..256)
        .into_par_iter()
        .fold(Stats::new, |mut st, t| {
            for size in 0u32..65536 {
                check_sizes_t(ctx, t as u8, size as u16, 3, 0x0102, &mut st);
            }
            for &size in &[0u16, 1, 1208, 0x7FFF, 0x8000, 0xFFFE, 0xFFFF] {
                for &c in &b {
                    for &n in &b {
                        check_sizes_t(ctx, t as u8, size, c, n, &mut st);
                    }
                }
            }
            st.nontrivial(&[b'x', t as u8]);
            st
        })
        .reduce(Stats::new, Stats::merge);
    let mut s4 = Stats::new();
    {
        use crate::guard::{short_read_check, SplitReader};
        for plan in 0..3u8 {
            let bytes: Vec<u8> = (0..28u32).map(|i| if plan == 0 { (i * 7 + 13) as u8 } else if plan == 1 { !((i * 7 + 13) as u8) } else { (i * 37 + 101) as u8 }).collect();
            let n = short_read_check(
                ctx,
                "decode_message_header",
                &bytes,
                true,
                |r: &mut SplitReader| dm::decode_message_header(r).ok().map(|h| (h.segment_size, h.redundant_channel, h.message_type, h.sequence_number, h.date, h.time, h.segment_count, h.segment_number)),
                |shape| json!({"op": "short_read", "plan": plan, "boundaries": shape.0, "max_chunk": shape.1}),
            );
            s4.evaluations += n;
            s4.count("short_read_shapes", n);
            let n = crate::guard::two_actor_check(
                ctx,
                "decode_message_header",
                &bytes,
                32,
                |r: &mut SplitReader| dm::decode_message_header(r).ok().map(|h| (h.segment_size, h.redundant_channel, h.message_type, h.sequence_number, h.date, h.time, h.segment_count, h.segment_number)),
                |mode, k| json!({"op": "short_read", "plan": plan, "mode": mode, "read_call": k}),
            );
            s4.evaluations += n;
            s4.count("two_actor_schedules", n);
        }
    }
    // history: accessor results must not depend on the header examined just before
    let hdrs: Vec<(u8, u16, u16, u16)> = vec![(2, 1208, 1, 1), (31, 0xFFFF, 1, 2), (15, 0xFFFF, 7, 9), (2, 0x8000, 3, 3), (0, 0, 0, 0), (18, 0xFFFE, 0xFFFF, 0xFFFF), (31, 600, 2, 1)];
    let sh = history_check(
        ctx,
        "message_header_accessors",
        hdrs.len(),
        3,
        |i| {
            let (t, sz, c, n) = hdrs[i];
            let mut h = MsgHeader::simple(t, 19000 + i as u16, 1000 * i as u32);
            h.size = sz;
            h.count = c;
            h.number = n;
            let d = decode(&h);
            format!("{:?}", guarded(|| (d.segmented(), d.segment_count(), d.segment_number(), d.message_size_bytes(), d.message_type(), d.date_time().map(|x| x.timestamp_millis()))))
        },
        |i| format!("header{:?}", hdrs[i]),
    );
    let stats = stats.merge(s1).merge(s2).merge(s3).merge(s4).merge(sh);
    let cov = stats.coverage(
        "all 256 type codes; six channel codes; 5 layout plans; all 65536 size values x 7x7 boundary (count, number) pairs; for size 0xFFFF (thorough: +63 sizes) all 65536 counts x 7 numbers and 7 counts x all 65536 numbers. non-trivial = distinct code / size value / plane coordinate",
        true,
        json!({"boundary": b, "plane_sizes": plane_sizes.len()}),
    );
    (
        "exploration",
        cov,
        vec![
            "overflow-checks on (arithmetic overflow in an accessor surfaces as a panic, i.e. 'does not return')",
            "type-code table transcribed from the MessageType discriminants",
        ],
    )
}

pub fn replay(ctx: &'static Ctx, case: &Value) {
    let mut st = Stats::new();
    match case["op"].as_str() {
        Some("sizes") => check_sizes_t(
            ctx,
            case["type"].as_u64().unwrap_or(2) as u8,
            case["size"].as_u64().unwrap_or(0) as u16,
            case["count"].as_u64().unwrap_or(0) as u16,
            case["number"].as_u64().unwrap_or(0) as u16,
            &mut st,
        ),
        Some("sizes") if false => {}
        Some("history") | Some("short_read") => {
            let _ = run(ctx);
        }
        Some("type") => check_type(ctx, case["code"].as_u64().unwrap_or(0) as u8, &mut st),
        Some("layout") => check_layout(ctx, case["plan"].as_u64().unwrap_or(0) as u8, &mut st),
        _ => check_channels(ctx, &mut st),
    }
    println!("replay C10 {:?} -> {:?}", case, st.outcomes);
}
