//! C16 — chunk and archive identifiers: parsing and successor arithmetic.
//! E2: stateright search of the successor graph driven by the real `next_chunk`, plus exhaustive
//! enumeration of the 999 x 55 position space, names, archive names and a totality scope.

use crate::core::*;
use chrono::{Datelike, Timelike};
use nexrad_data::aws::archive::Identifier;
use nexrad_data::aws::realtime::{ChunkIdentifier, ChunkType, NextChunk, VolumeIndex};
use rayon::prelude::*;
use serde_json::{json, Value};
use stateright::{Checker, Model, Property};
use std::sync::atomic::{AtomicU64, Ordering};
use std::sync::Arc;

const PREFIXES: [&str; 3] = ["20240813-123330", "19991231-235959", "20400101-000000"];

fn type_letter(seq: usize) -> &'static str {
    match seq {
        1 => "S",
        55 => "E",
        _ => "I",
    }
}

fn chunk_name(prefix: &str, seq: usize) -> String {
    format!("{}-{:03}-{}", prefix, seq, type_letter(seq))
}

fn ref_type(seq: usize) -> ChunkType {
    match seq {
        1 => ChunkType::Start,
        55 => ChunkType::End,
        _ => ChunkType::Intermediate,
    }
}

/// real successor of (volume, sequence): Ok((v, s)) or a description of what went wrong
fn real_succ(site: &str, prefix: &str, v: usize, s: usize) -> Result<(usize, usize, Option<ChunkIdentifier>), String> {
    let id = ChunkIdentifier::new(site.to_string(), VolumeIndex::new(v), chunk_name(prefix, s), None);
    match guarded(move || id.next_chunk()) {
        Caught::Panic(p) => Err(format!("panic {p}")),
        Caught::Ret(None) => Err("next_chunk returned None".into()),
        Caught::Ret(Some(NextChunk::Sequence(n))) => match n.sequence() {
            Some(ns) => Ok((n.volume().as_number(), ns, Some(n))),
            None => Err(format!("successor name {:?} has no sequence", n.name())),
        },
        Caught::Ret(Some(NextChunk::Volume(nv))) => Ok((nv.as_number(), 1, None)),
    }
}

fn ref_succ(v: usize, s: usize) -> (usize, usize) {
    if s < 55 {
        (v, s + 1)
    } else {
        (if v == 999 { 1 } else { v + 1 }, 1)
    }
}

fn check_position(ctx: &Ctx, prefix: &str, v: usize, s: usize) -> Option<(usize, usize)> {
    let wit = || json!({"op": "succ", "prefix": prefix, "volume": v, "sequence": s});
    let class = if s == 55 { if v == 999 { "wrap" } else { "end" } } else if s == 54 { "to_end" } else { "mid" };
    match real_succ("KDMX", prefix, v, s) {
        Err(e) => {
            ctx.fail(&format!("succ:{class}:no_successor"), || format!("({v},{s}): {e}"), wit);
            None
        }
        Ok((nv, ns, id)) => {
            if (nv, ns) != ref_succ(v, s) {
                ctx.fail(
                    &format!("succ:{class}:wrong_successor"),
                    || format!("({v},{s}) -> ({nv},{ns}), expected {:?}", ref_succ(v, s)),
                    wit,
                );
            }
            if nv == 0 || nv > 999 {
                ctx.fail(&format!("succ:{class}:volume_out_of_range"), || format!("({v},{s}) -> volume {nv}"), wit);
            }
            if let Some(id) = id {
                if id.site() != "KDMX" || id.name() != chunk_name(prefix, ns) || id.chunk_type() != Some(ref_type(ns)) {
                    ctx.fail(
                        &format!("succ:{class}:successor_identifier_fields"),
                        || format!("({v},{s}) -> {:?}", id),
                        wit,
                    );
                }
            }
            Some((nv, ns))
        }
    }
}

#[derive(Clone)]
struct SuccModel {
    ctx: &'static Ctx,
    transitions: Arc<AtomicU64>,
}

impl Model for SuccModel {
    type State = (u16, u8);
    type Action = ();
    fn init_states(&self) -> Vec<Self::State> {
        vec![(1, 1)]
    }
    fn actions(&self, _s: &Self::State, actions: &mut Vec<()>) {
        actions.push(());
    }
    fn next_state(&self, last: &Self::State, _a: ()) -> Option<Self::State> {
        self.transitions.fetch_add(1, Ordering::Relaxed);
        // the transition function IS the implementation
        real_succ("KDMX", PREFIXES[0], last.0 as usize, last.1 as usize)
            .ok()
            .map(|(v, s, _)| (v.min(65535) as u16, s.min(255) as u8))
    }
    fn properties(&self) -> Vec<Property<Self>> {
        vec![Property::always("position within 1..=999 x 1..=55", |m: &SuccModel, s: &(u16, u8)| {
            if s.0 == 0 || s.0 > 999 || s.1 == 0 || s.1 > 55 {
                m.ctx.fail(
                    "succ:reachable_position_out_of_range",
                    || format!("reachable state {:?}", s),
                    || json!({"op": "reach", "state": [s.0, s.1]}),
                );
            }
            true
        })]
    }
}

fn t_thorough(ctx: &Ctx) -> bool {
    ctx.tier.thorough()
}

// independent civil-date arithmetic (days from 1970-01-01), Howard Hinnant's algorithm
fn days_from_civil(y: i64, m: i64, d: i64) -> i64 {
    let y = if m <= 2 { y - 1 } else { y };
    let era = if y >= 0 { y } else { y - 399 } / 400;
    let yoe = y - era * 400;
    let doy = (153 * (if m > 2 { m - 3 } else { m + 9 }) + 2) / 5 + d - 1;
    let doe = yoe * 365 + yoe / 4 - yoe / 100 + doy;
    era * 146097 + doe - 719468
}

fn days_in_month(y: i64, m: i64) -> i64 {
    match m {
        1 | 3 | 5 | 7 | 8 | 10 | 12 => 31,
        4 | 6 | 9 | 11 => 30,
        _ => {
            if (y % 4 == 0 && y % 100 != 0) || y % 400 == 0 {
                29
            } else {
                28
            }
        }
    }
}

fn check_archive_name(ctx: &Ctx, site: &str, y: i64, mo: i64, d: i64, h: i64, mi: i64, s: i64, suffix: &str) -> bool {
    let name = format!("{site}{y:04}{mo:02}{d:02}_{h:02}{mi:02}{s:02}{suffix}");
    let wit = || json!({"op": "archive_name", "name": name});
    let id = Identifier::new(name.clone());
    let r = guarded(|| (id.site().map(|x| x.to_string()), id.date_time(), id.name().to_string()));
    match r {
        Caught::Panic(p) => {
            ctx.fail("archive_name:panic", || p.clone(), wit);
            false
        }
        Caught::Ret((rsite, dt, rname)) => {
            let exp = days_from_civil(y, mo, d) * 86400 + h * 3600 + mi * 60 + s;
            let mut ok = true;
            if rsite.as_deref() != Some(site) {
                ctx.fail("archive_name:site", || format!("{name}: {:?}", rsite), wit);
                ok = false;
            }
            if rname != name {
                ctx.fail("archive_name:name", || name.clone(), wit);
                ok = false;
            }
            match dt {
                Some(dt)
                    if dt.timestamp() == exp
                        && dt.year() as i64 == y
                        && dt.month() as i64 == mo
                        && dt.day() as i64 == d
                        && dt.hour() as i64 == h
                        && dt.minute() as i64 == mi
                        && dt.second() as i64 == s => {}
                other => {
                    ctx.fail("archive_name:date_time", || format!("{name}: {:?} expected epoch {exp}", other), wit);
                    ok = false;
                }
            }
            ok
        }
    }
}

fn totality_one(ctx: &Ctx, s: &str, st: &mut Stats) {
    let wit = || json!({"op": "totality", "string_hex": hex(s.as_bytes())});
    let a = Identifier::new(s.to_string());
    let c = ChunkIdentifier::new("KDMX".into(), VolumeIndex::new(1), s.to_string(), None);
    let r = guarded(|| (a.site().map(|x| x.to_string()), a.date_time(), c.sequence(), c.chunk_type()));
    st.eval();
    match r {
        Caught::Panic(p) => {
            ctx.fail(&format!("totality:panic:{}", panic_class(&p)), || format!("{:?}: {p}", s), wit);
            st.outcome("totality_panic");
        }
        Caught::Ret((site, dt, seq, ty)) => {
            // "yielding none when the text does not parse"
            if s.len() < 4 && site.is_some() {
                ctx.fail("totality:site_some_on_short", || format!("{:?}", s), wit);
            }
            if s.len() < 19 && dt.is_some() {
                ctx.fail("totality:date_time_some_on_short", || format!("{:?}", s), wit);
            }
            // arbitrary text: only "returns, and none when there is nothing that could parse"
            if !s.chars().any(|c| matches!(c, 'S' | 'I' | 'E')) && ty.is_some() {
                ctx.fail("totality:chunk_type_some_without_letter", || format!("{:?} -> {:?}", s, ty), wit);
            }
            if !s.chars().any(|c| c.is_numeric()) && seq.is_some() {
                ctx.fail("totality:sequence_some_without_digit", || format!("{:?} -> {:?}", s, seq), wit);
            }
            st.outcome(&format!(
                "totality_site={}_dt={}_seq={}_type={}",
                site.is_some(),
                dt.is_some(),
                seq.is_some(),
                ty.is_some()
            ));
        }
    }
}

pub fn run(ctx: &'static Ctx) -> (&'static str, Value, Vec<&'static str>) {
    let t = ctx.tier.thorough();
    let mut stats = Stats::new();

    // --- E2: successor graph from (1,1), driven by the real next_chunk
    let tr = Arc::new(AtomicU64::new(0));
    let bfs = SuccModel { ctx, transitions: tr.clone() }.checker().threads(4).spawn_bfs().join();
    let states = bfs.unique_state_count() as u64;
    let transitions = tr.load(Ordering::Relaxed);
    if states != 999 * 55 {
        ctx.fail(
            "succ:reachable_set_size",
            || format!("reachable positions from (1,1): {states}, expected 54945"),
            || json!({"op": "reach_count"}),
        );
    }
    let dfs = SuccModel { ctx, transitions: Arc::new(AtomicU64::new(0)) }.checker().threads(4).spawn_dfs().join();
    if dfs.unique_state_count() as u64 != states {
        machinery("C16: BFS and DFS disagree on the reachable set");
    }

    // --- every position as an initial state; in-degree; full orbit
    let mut indeg = vec![0u32; 1000 * 56];
    for v in 1..=999usize {
        for s in 1..=55usize {
            for (pi, p) in PREFIXES.iter().enumerate() {
                let r = check_position(ctx, p, v, s);
                stats.eval();
                stats.nontrivial(format!("pos{v}/{s}/{pi}").as_bytes());
                if pi == 0 {
                    if let Some((nv, ns)) = r {
                        if nv < 1000 && ns < 56 {
                            indeg[nv * 56 + ns] += 1;
                        }
                    }
                }
            }
            stats.dim("sequence_class", if s == 55 { "end" } else if s == 1 { "start" } else { "intermediate" });
        }
    }
    let bad_in = (1..=999usize)
        .flat_map(|v| (1..=55usize).map(move |s| (v, s)))
        .filter(|(v, s)| indeg[v * 56 + s] != 1)
        .count();
    if bad_in != 0 {
        ctx.fail(
            "succ:in_degree_not_one",
            || format!("{bad_in} positions do not have exactly one predecessor"),
            || json!({"op": "indegree"}),
        );
    }
    // orbit
    let (mut v, mut s) = (1usize, 1usize);
    let mut steps = 0u64;
    let mut seen = vec![false; 1000 * 56];
    let mut orbit_ok = true;
    loop {
        if v >= 1000 || s >= 56 || seen[v * 56 + s] {
            orbit_ok = false;
            break;
        }
        seen[v * 56 + s] = true;
        match real_succ("KDMX", PREFIXES[0], v, s) {
            Ok((nv, ns, _)) => {
                v = nv;
                s = ns;
            }
            Err(_) => {
                orbit_ok = false;
                break;
            }
        }
        steps += 1;
        if (v, s) == (1, 1) {
            break;
        }
        if steps > 60000 {
            orbit_ok = false;
            break;
        }
    }
    if !orbit_ok || steps != 54945 {
        ctx.fail(
            "succ:orbit",
            || format!("orbit from (1,1): returned={orbit_ok} after {steps} steps, expected 54945"),
            || json!({"op": "orbit"}),
        );
    }
    stats.count("orbit_steps", steps);
    for (v, s) in [(1usize, 1usize), (500, 54), (998, 55), (999, 55)] {
        let r = real_succ("KDMX", PREFIXES[0], v, s).map(|(a, b, _)| (a, b));
        stats.sample(8, || json!({"position": [v, s], "real_successor": format!("{:?}", r)}));
    }

    // --- names parse back; with_sequence
    for (pi, p) in PREFIXES.iter().enumerate() {
        for v in [1usize, 2, 500, 998, 999] {
            for s in 1..=55usize {
                let name = chunk_name(p, s);
                let id = ChunkIdentifier::new("KTLX".into(), VolumeIndex::new(v), name.clone(), None);
                let r = guarded(|| (id.sequence(), id.chunk_type(), id.name_prefix().to_string(), id.site().to_string(), id.volume().as_number()));
                stats.eval();
                let wit = || json!({"op": "name", "name": name, "volume": v});
                match r {
                    Caught::Panic(pn) => ctx.fail("name:panic", || pn.clone(), wit),
                    Caught::Ret((seq, ty, pre, site, vol)) => {
                        if seq != Some(s) || ty != Some(ref_type(s)) || pre != *p || site != "KTLX" || vol != v {
                            ctx.fail("name:parse_back", || format!("{name}: {:?} {:?} {pre} {site} {vol}", seq, ty), wit);
                        }
                    }
                }
                if v == 500 {
                    for s2 in 1..=55usize {
                        let id2 = id.clone();
                        let r = guarded(move || id2.with_sequence(s2));
                        stats.eval();
                        let wit = || json!({"op": "with_sequence", "name": name, "to": s2});
                        match r {
                            Caught::Panic(pn) => ctx.fail("with_sequence:panic", || pn.clone(), wit),
                            Caught::Ret(n) => {
                                if n.site() != "KTLX"
                                    || n.volume().as_number() != v
                                    || n.name_prefix() != *p
                                    || n.sequence() != Some(s2)
                                    || n.chunk_type() != Some(ref_type(s2))
                                    || n.name() != chunk_name(p, s2)
                                {
                                    ctx.fail("with_sequence:fields", || format!("{name} -> {:?}", n), wit);
                                }
                            }
                        }
                        stats.nontrivial(format!("ws{pi}/{s}/{s2}").as_bytes());
                    }
                }
            }
        }
    }

    // --- prefix x source sequence x target sequence: every date of a leap year x 4 times of day
    // (the prefix itself contains digit groups that can collide with the zero-padded sequence)
    let mut pdates: Vec<(i64, i64)> = Vec::new();
    for m in 1..=12 {
        for d in 1..=days_in_month(2024, m) {
            pdates.push((m, d));
        }
    }
    let ptimes = ["000000", "101010", "123330", "235959", "001002", "055055"];
    let pref: Stats = pdates
        .par_iter()
        .fold(Stats::new, |mut st, (m, d)| {
            for (ti, t) in ptimes.iter().enumerate() {
                if !t_thorough(ctx) && ti >= 3 && (m + d) % 4 != 0 {
                    continue;
                }
                let prefix = format!("2024{m:02}{d:02}-{t}");
                for s in 1..=55usize {
                    let id = ChunkIdentifier::new("KDMX".into(), VolumeIndex::new(7), chunk_name(&prefix, s), None);
                    // successor
                    let r = check_position(ctx, &prefix, 7, s);
                    let _ = r;
                    st.evaluations += 1;
                    for s2 in 1..=55usize {
                        st.evaluations += 1;
                        let id2 = id.clone();
                        match guarded(move || id2.with_sequence(s2)) {
                            Caught::Panic(pn) => ctx.fail("with_sequence:panic", || pn.clone(), || json!({"op": "with_sequence", "name": chunk_name(&prefix, s), "to": s2})),
                            Caught::Ret(n) => {
                                if n.name() != chunk_name(&prefix, s2) || n.name_prefix() != prefix || n.sequence() != Some(s2) || n.chunk_type() != Some(ref_type(s2)) || n.site() != "KDMX" || n.volume().as_number() != 7 {
                                    ctx.fail("with_sequence:fields:prefix_dependent", || format!("{} -> sequence {s2}: {:?}", chunk_name(&prefix, s), n.name()), || json!({"op": "with_sequence", "name": chunk_name(&prefix, s), "to": s2}));
                                }
                            }
                        }
                    }
                }
                st.nontrivial(prefix.as_bytes());
                st.count("prefixes", 1);
            }
            st
        })
        .reduce(Stats::new, Stats::merge);
    stats = stats.merge(pref);

    // --- history: identifier operations on different names back to back on one thread
    let hnames: Vec<(String, usize)> = vec![
        ("20241014-123330-014-I".into(), 7), ("20240813-123330-055-E".into(), 998), ("20240813-123330-055-E".into(), 999),
        ("20241031-000031-031-I".into(), 1), ("20240101-010101-001-S".into(), 500), ("garbage".into(), 3), ("20241014-123330-054-I".into(), 7),
    ];
    let sh = history_check(
        ctx,
        "chunk_identifier_operations",
        hnames.len(),
        3,
        |i| {
            let id = ChunkIdentifier::new("KDMX".into(), VolumeIndex::new(hnames[i].1), hnames[i].0.clone(), None);
            format!(
                "{:?}",
                guarded(|| (
                    id.sequence(),
                    id.chunk_type(),
                    id.next_chunk().map(|n| match n {
                        NextChunk::Sequence(c) => format!("{}/{}", c.volume().as_number(), c.name()),
                        NextChunk::Volume(v) => format!("vol{}", v.as_number()),
                    }),
                    if id.name().len() >= 15 { Some(id.with_sequence(30).name().to_string()) } else { None },
                ))
            )
        },
        |i| format!("{}@{}", hnames[i].0, hnames[i].1),
    );
    let anames = ["KDMX20240813_123330_V06", "KTLX19991231_235959", "KDMé20220305_232324_V06", "short", "PHWA20240229_000000_V06_MDM"];
    let sa = history_check(
        ctx,
        "archive_identifier_operations",
        anames.len(),
        3,
        |i| {
            let id = Identifier::new(anames[i].to_string());
            format!("{:?}", guarded(|| (id.site().map(|s| s.to_string()), id.date_time().map(|d| d.timestamp()))))
        },
        |i| anames[i].to_string(),
    );
    stats = stats.merge(sh).merge(sa);

    // --- archive names
    // the quick tier checks the first two on every date and the others on the first of each month
    let suffixes = ["", "_V06", "_V06_MDM", ".gz", "V06", "-V06", ".Z", "_", "0", "_V06.gz", "é"];
    let (y0, y1) = if t { (1991, 2040) } else { (1991, 2040) };
    let mut dates = Vec::new();
    for y in y0..=y1 {
        for m in 1..=12 {
            for d in 1..=days_in_month(y, m) {
                dates.push((y, m, d));
            }
        }
    }
    let times: Vec<(i64, i64, i64)> = vec![(0, 0, 0), (12, 0, 0), (23, 59, 59)];
    let arch: Stats = dates
        .par_iter()
        .fold(Stats::new, |mut st, (y, m, d)| {
            for (h, mi, s) in &times {
                for (si, suf) in suffixes.iter().enumerate() {
                    if !t && si > 1 && *d != 1 {
                        continue;
                    }
                    check_archive_name(ctx, "KDMX", *y, *m, *d, *h, *mi, *s, suf);
                    st.eval();
                    st.count("archive_names", 1);
                }
            }
            st.nontrivial(format!("d{y}{m}{d}").as_bytes());
            st
        })
        .reduce(Stats::new, Stats::merge);
    stats = stats.merge(arch);
    // the site field is four characters of any kind: every printable ASCII character at every
    // position, and every four-letter word over {A,Z,a,z,0,9,_,-} (sites with digits exist)
    {
        let mut sites: Vec<String> = Vec::new();
        for pos in 0..4 {
            for c in 0x20u8..0x7F {
                let mut b = *b"KDMX";
                b[pos] = c;
                sites.push(String::from_utf8_lossy(&b).to_string());
            }
        }
        let alpha = [b'A', b'Z', b'a', b'z', b'0', b'9', b'_', b'-'];
        for w in words(alpha.len() as u64, 4) {
            sites.push(w.iter().map(|i| alpha[*i as usize] as char).collect());
        }
        for site in &sites {
            for suf in ["_V06", ""] {
                check_archive_name(ctx, site, 2022, 3, 5, 23, 23, 24, suf);
                stats.eval();
            }
        }
        stats.count("archive_names_over_site_alphabet", sites.len() as u64 * 2);
    }
    let secs: Stats = (0..86400i64)
        .into_par_iter()
        .fold(Stats::new, |mut st, sec| {
            for suf in ["_V06", ""] {
                check_archive_name(ctx, "PHWA", 2024, 2, 29, sec / 3600, (sec / 60) % 60, sec % 60, suf);
                st.eval();
                st.count("archive_names", 1);
            }
            st.nontrivial(format!("t{sec}").as_bytes());
            st
        })
        .reduce(Stats::new, Stats::merge);
    stats = stats.merge(secs);

    // --- totality scope
    let mut tot = Stats::new();
    let multibyte = ["é", "日", "😀", "\u{0301}"];
    let bases = [
        "KDMX20240813_123330_V06",
        "20240813-123330-014-I",
        "AAAAAAAAAAAAAAAAAAAAAAAA",
        "KDMX20240813_123330",
        "--5-S",
    ];
    for base in bases {
        for mb in multibyte {
            for off in 0..=base.len() {
                // insert
                let mut s = String::new();
                s.push_str(&base[..off]);
                s.push_str(mb);
                s.push_str(&base[off..]);
                totality_one(ctx, &s, &mut tot);
                tot.nontrivial(s.as_bytes());
                // replace (keeps later offsets shifted by the extra bytes)
                if off < base.len() {
                    let mut s = String::new();
                    s.push_str(&base[..off]);
                    s.push_str(mb);
                    s.push_str(&base[off + 1..]);
                    totality_one(ctx, &s, &mut tot);
                    tot.nontrivial(s.as_bytes());
                }
                // truncation of every prefix
                totality_one(ctx, &base[..off], &mut tot);
            }
        }
    }
    let alpha = ["K", "0", "-", "_", "S", "E", "é", "日", "😀", " "];
    let maxlen = if t { 4 } else { 3 };
    for len in 0..=maxlen {
        for w in words(alpha.len() as u64, len) {
            let s: String = w.iter().map(|i| alpha[*i as usize]).collect();
            totality_one(ctx, &s, &mut tot);
            tot.nontrivial(s.as_bytes());
        }
    }
    // sequence strings around the numeric parser
    for mid in ["000", "001", "055", "56", "999", "-1", "+5", "", " 5", "٣", "18446744073709551616", "5é"] {
        let s = format!("20240813-123330-{mid}-I");
        totality_one(ctx, &s, &mut tot);
    }
    // every literal of the source under test as a whole name and in each dash/underscore field
    for lit in source_dictionary() {
        if let Ok(l) = std::str::from_utf8(lit) {
            for s in [l.to_string(), format!("{l}-123330-014-I"), format!("20240813-{l}-014-I"), format!("20240813-123330-{l}-I"), format!("20240813-123330-014-{l}"), format!("{l}20240813_123330_V06"), format!("KDMX20240813_123330_{l}"), format!("KDMX{l}")] {
                totality_one(ctx, &s, &mut tot);
            }
            tot.count("source_literal_names", 8);
        }
    }
    stats = stats.merge(tot);

    let mut cov = stats.coverage(
        "stateright BFS+DFS over the successor graph whose transition function is the real ChunkIdentifier::next_chunk (reachable set must be exactly 999x55); then every (volume, sequence) x 3 prefixes as an initial state, in-degree and full orbit; all names parse back; with_sequence 55x55; successor and with_sequence (55 x 55) for every date of 2024 x 3 (thorough 6) times of day as prefix; archive names for every date 1991..2040 x 3 times x 11 suffixes (with and without a leading underscore, a digit, a dot, multi-byte) and every second of one day, and for every printable ASCII character at every site position plus all 4-letter sites over {A,Z,a,z,0,9,_,-}; totality over multi-byte insert/replace at every offset and all short strings over a 10-symbol alphabet. non-trivial = distinct position/name/date/string",
        true,
        json!({"positions": 54945, "dates": dates.len(), "totality_alphabet": alpha, "totality_len": maxlen}),
    );
    cov["states"] = json!(states);
    cov["transitions"] = json!(transitions);
    cov["traces_validated_against_impl"] = json!(states);
    (
        "model_checking",
        cov,
        vec![
            "reference successor rule and civil-date arithmetic in harness (independent of chrono)",
            "overflow-checks on, debug-assertions off (VolumeIndex::new's debug_assert is not shipped behaviour)",
        ],
    )
}

pub fn replay(ctx: &'static Ctx, case: &Value) {
    match case["op"].as_str() {
        Some("succ") => {
            let r = check_position(
                ctx,
                case["prefix"].as_str().unwrap_or(PREFIXES[0]),
                case["volume"].as_u64().unwrap_or(1) as usize,
                case["sequence"].as_u64().unwrap_or(1) as usize,
            );
            println!("replay succ -> {:?}", r);
        }
        Some("totality") => {
            let b = unhex(case["string_hex"].as_str().unwrap_or(""));
            let s = String::from_utf8_lossy(&b).to_string();
            let mut st = Stats::new();
            totality_one(ctx, &s, &mut st);
            println!("replay totality {:?} -> {:?}", s, st.outcomes);
        }
        Some("archive_name") => {
            let name = case["name"].as_str().unwrap_or("");
            let id = Identifier::new(name.to_string());
            println!("replay archive_name {name}: site={:?} dt={:?}", id.site(), id.date_time());
            // re-evaluate through the checker when the name has the canonical shape
            if name.len() >= 19 && name.is_ascii() {
                let p = |a: usize, b: usize| name[a..b].parse::<i64>().unwrap_or(-1);
                check_archive_name(ctx, &name[0..4], p(4, 8), p(8, 10), p(10, 12), p(13, 15), p(15, 17), p(17, 19), &name[19..]);
            }
        }
        _ => {
            // aggregate checks (reach_count, indegree, orbit, name, with_sequence): rerun everything
            let _ = run(ctx);
        }
    }
}
