#!/usr/bin/env python3
"""Handles sub-agent seeded changes.
  seeded.py confirm <ID> <VAR>          confirm in the scratch worktree /tmp/mut/<ID>: tests green + demo fails with patch, demo passes without
  seeded.py detect  <ID> <VAR> [Cxx..]  apply to /repo, run the named checks (default: the property's own) at quick tier, revert
  seeded.py keep    <ID> <VAR>          copy into /verif/seeded/<ID>-<VAR>/ with meta.json augmented
"""
import subprocess, sys, json, os, re, shutil, glob

def sh(cmd, cwd=None, timeout=3600):
    return subprocess.run(cmd, shell=True, capture_output=True, text=True, cwd=cwd, timeout=timeout)

def paths(ID, VAR):
    out = f"/tmp/mut/out/{ID}/{VAR}"
    wt = f"/tmp/mut/{ID}"
    return out, wt

def demo_info(out):
    readme = open(glob.glob(out + "/README*")[0]).read() if glob.glob(out + "/README*") else ""
    demos = [f for f in os.listdir(out) if f.endswith(".rs")]
    # crate and test name from README
    m = re.search(r"cp\s+\S+\s+(\S+)/tests/?", readme)
    crate = m.group(1).split("/")[-1] if m else None
    t = re.search(r"--test\s+(\S+)", readme)
    ex = re.search(r"--example\s+(\S+)", readme)
    return readme, demos, crate, (t.group(1) if t else None), (ex.group(1) if ex else None)

def run_demo(out, wt):
    readme, demos, crate, test, ex = demo_info(out)
    shs = [f for f in os.listdir(out) if f.endswith(".sh")]
    if shs:
        r = sh(f"CARGO_TARGET_DIR={wt}/target bash {out}/{shs[0]} {wt} 2>&1 | tail -25", cwd=wt)
        rc = sh(f"CARGO_TARGET_DIR={wt}/target bash {out}/{shs[0]} {wt} >/dev/null 2>&1; echo $?", cwd=wt).stdout.strip()
        return rc == "0", r.stdout[-1500:]
    if not crate or not demos:
        return None, "cannot determine crate/demo from README"
    feat = re.search(r"cargo test[^\n]*--features[ =](\S+)", readme)
    featarg = f"--features {feat.group(1)}" if feat else ""
    if re.search(r"cargo test[^\n]*--release", readme):
        featarg += " --release"
    if re.search(r"cargo test[^\n]*--no-default-features", readme):
        featarg += " --no-default-features"
    os.makedirs(f"{wt}/{crate}/tests", exist_ok=True)
    installed = []
    for d in demos:
        # test target name must match --test; if README names a test that differs from file name, install under that name
        dst = f"{wt}/{crate}/tests/{test}.rs" if (test and len(demos) == 1) else f"{wt}/{crate}/tests/{d}"
        shutil.copy(f"{out}/{d}", dst)
        installed.append(dst)
    tname = test or demos[0][:-3]
    r = sh(f"CARGO_TARGET_DIR={wt}/target cargo test -p {crate} --offline {featarg} --test {tname} 2>&1 | tail -25", cwd=wt)
    for i in installed:
        os.remove(i)
    try:
        os.rmdir(f"{wt}/{crate}/tests")
    except OSError:
        pass
    ok = bool(re.search(r"test result: ok\. \d+ passed; 0 failed", r.stdout)) and "test result: FAILED" not in r.stdout
    return ok, r.stdout[-1500:]

def confirm(ID, VAR):
    out, wt = paths(ID, VAR)
    assert sh("git status --porcelain", cwd=wt).stdout.strip() == "", f"{wt} not clean: " + sh("git status --porcelain", cwd=wt).stdout
    res = {}
    a = sh(f"git apply {out}/patch.diff", cwd=wt)
    res["applies"] = a.returncode == 0
    if not res["applies"]:
        print(json.dumps(res), a.stderr)
        return res
    try:
        t = sh(f"CARGO_TARGET_DIR={wt}/target cargo test --workspace --offline 2>&1 | grep -E 'test result: .* [1-9][0-9]* passed|FAILED|^error' | head -3", cwd=wt)
        res["tests_green_with_patch"] = "37 passed; 0 failed" in t.stdout
        ok, txt = run_demo(out, wt)
        res["demo_fails_with_patch"] = (ok is False)
        res["demo_with_patch_tail"] = txt[-400:] if txt else ""
    finally:
        sh("git checkout -- .", cwd=wt)
    ok, txt = run_demo(out, wt)
    res["demo_passes_without_patch"] = (ok is True)
    if ok is not True:
        res["demo_clean_tail"] = txt[-600:] if txt else ""
    sh("git checkout -- . ; git clean -fdq -e target", cwd=wt)
    res["confirmed"] = bool(res.get("tests_green_with_patch") and res.get("demo_fails_with_patch") and res.get("demo_passes_without_patch"))
    print(ID, VAR, json.dumps({k: v for k, v in res.items() if not k.endswith("_tail")}))
    if not res["confirmed"]:
        print(res.get("demo_with_patch_tail", ""), res.get("demo_clean_tail", ""))
    json.dump(res, open(f"{out}/confirm.json", "w"), indent=1)
    return res

def detect(ID, VAR, checks):
    out, wt = paths(ID, VAR)
    if not checks:
        checks = [ID]
    assert sh("git -C /repo status --porcelain").stdout.strip() == "", "/repo not clean"
    a = sh(f"git -C /repo apply {out}/patch.diff")
    assert a.returncode == 0, a.stderr
    det = {}
    try:
        for c in checks:
            r = sh(f"./check {c} quick", cwd="/verif")
            sigs = [l.strip()[len("signature: "):] for l in r.stdout.splitlines() if l.strip().startswith("signature:")]
            det[c] = {"rc": r.returncode, "signatures": sigs[:6]}
            if r.returncode not in (0, 1):
                det[c]["tail"] = r.stdout[-400:]
    finally:
        sh("git -C /repo checkout -- . ; git -C /repo clean -fdq")
    print(ID, VAR, json.dumps(det))
    json.dump(det, open(f"{out}/detect.json", "w"), indent=1)
    return det

def keep(ID, VAR):
    out, wt = paths(ID, VAR)
    dst = f"/verif/seeded/{ID}-{VAR}"
    os.makedirs(dst, exist_ok=True)
    for f in os.listdir(out):
        if f.endswith((".rs", ".diff", ".txt", ".sh")):
            shutil.copy(f"{out}/{f}", dst)
    meta = json.load(open(f"{out}/meta.json")) if os.path.exists(f"{out}/meta.json") else {"property": ID, "variant": VAR}
    if os.path.exists(f"{out}/confirm.json"):
        c = json.load(open(f"{out}/confirm.json"))
        meta["confirmed_by_me"] = {k: v for k, v in c.items() if not k.endswith("_tail")}
        meta["what_i_ran"] = "in a scratch worktree: git apply patch.diff; cargo test --workspace --offline (37 passed); demo test fails; git checkout; demo test passes"
    if os.path.exists(f"{out}/detect.json"):
        meta["detected_by_checks"] = json.load(open(f"{out}/detect.json"))
    json.dump(meta, open(f"{dst}/meta.json", "w"), indent=1)
    print("kept", dst)

if __name__ == "__main__":
    cmd, ID, VAR = sys.argv[1], sys.argv[2], sys.argv[3]
    if cmd == "confirm":
        confirm(ID, VAR)
    elif cmd == "detect":
        detect(ID, VAR, sys.argv[4:])
    elif cmd == "keep":
        keep(ID, VAR)
