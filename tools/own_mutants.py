#!/usr/bin/env python3
"""Applies hand-written property-breaking edits to /repo one at a time, runs the repo's own tests
(must stay green) and the named checks (must report a VIOLATION), then reverts.
usage: own_mutants.py [name-substring ...]"""
import subprocess, sys, json, time, os

R = "/repo/"
M = [
 # (name, property checks, file, old, new)
 ("c01_vcp_from_last_vol", ["C01"], "nexrad-data/src/volume/file.rs",
  "if coverage_pattern_number.is_none() {\n                        if let Some(volume_block)", "if true {\n                        if let Some(volume_block)"),
 ("c01_skip_decompress_even_records", ["C01"], "nexrad-data/src/volume/file.rs",
  "radials.push(radar_data_message.into_radial()?);", "if radials.len() != 7 { radials.push(radar_data_message.into_radial()?); }"),
 ("c02_swap_az_date", ["C02"], "nexrad-decode/src/messages/digital_radar_data/header.rs",
  "    pub date: Integer2,\n\n    /// Radial number within the elevation scan. These range up to 720, in 0.5 degree increments.\n    pub azimuth_number: Integer2,",
  "    pub azimuth_number: Integer2,\n\n    /// x\n    pub date: Integer2,"),
 ("c02_rho_to_phi", ["C02"], "nexrad-decode/src/messages/digital_radar_data.rs",
  '"RHO" => {\n                        message.correlation_coefficient_data_block = Some(generic_data_block);',
  '"RHO" => {\n                        message.differential_phase_data_block = Some(generic_data_block);'),
 ("c02_elv_not_rewound", ["C02", "C03"], "nexrad-decode/src/messages/digital_radar_data.rs",
  "            \"ELV\" => {\n                message.elevation_data_block = Some(deserialize(reader)?);", "            \"ELV\" => {\n                message.elevation_data_block = Some(deserialize(reader)?);\n                message.radial_data_block = None;"),
 ("c03_frame_body_short", ["C03"], "nexrad-decode/src/messages.rs",
  "let mut message_buffer = [0; 2432 - size_of::<MessageHeader>()];", "let mut message_buffer = [0; 2432 - 16];"),
 ("c03_swallow_body_errors", ["C03"], "nexrad-decode/src/messages.rs",
  "let contents = decode_message_contents(reader, header.message_type())?;", "let Ok(contents) = decode_message_contents(reader, header.message_type()) else { break };"),
 ("c04_capacity_in_bits", ["C04"], "nexrad-decode/src/messages/digital_radar_data/generic_data_block.rs",
  "        Self {\n            encoded_data: vec![0; encoded_data_size],\n            header,\n        }",
  "        let mut encoded_data = Vec::with_capacity(header.number_of_data_moment_gates as usize * header.data_word_size as usize);\n        encoded_data.resize(encoded_data_size, 0);\n        Self { encoded_data, header }"),
 ("c08_ms_truncated_to_seconds", ["C08"], "nexrad-decode/src/util.rs",
  "let time = NaiveTime::from_num_seconds_from_midnight_opt(0, 0)? + past_midnight;", "let time = NaiveTime::from_num_seconds_from_midnight_opt(past_midnight.num_seconds() as u32, 0)?;"),
 ("c05_magic_at_0", ["C05"], "nexrad-data/src/volume/record.rs",
  'self.data().len() >= 6 && self.data()[4..6].as_ref() == b"BZ"', 'self.data().len() >= 6 && (self.data()[4..6].as_ref() == b"BZ" || self.data()[0..2].as_ref() == b"BZ")'),
 ("c05_abs_dropped", ["C05", "C01"], "nexrad-data/src/volume/record.rs",
  "let record_size = i32::from_be_bytes(record_size).unsigned_abs() as usize;", "let record_size = i32::from_be_bytes(record_size).max(0) as usize;"),
 ("c06_compressed_len_check_removed", ["C06"], "nexrad-data/src/volume/record.rs",
  'self.data().len() >= 6 && self.data()[4..6].as_ref() == b"BZ"', 'self.data()[4..6].as_ref() == b"BZ"'),
 ("c07_spacing_times_one", ["C07"], "nexrad-decode/src/messages/digital_radar_data/message.rs",
  "self.header.azimuth_resolution_spacing as f32 * 0.5,\n            match self.header.radial_status() {\n                RadialStatus::ElevationStart => ModelRadialStatus::ElevationStart,\n                RadialStatus::IntermediateRadialData => ModelRadialStatus::IntermediateRadialData,\n                RadialStatus::ElevationEnd => ModelRadialStatus::ElevationEnd,\n                RadialStatus::VolumeScanStart => ModelRadialStatus::VolumeScanStart,\n                RadialStatus::VolumeScanEnd => ModelRadialStatus::VolumeScanEnd,\n                RadialStatus::ElevationStartVCPFinal => ModelRadialStatus::ElevationStartVCPFinal,\n            },\n            self.header.elevation_number,\n            self.header.elevation_angle,\n            self.reflectivity_data_block\n                .as_ref()",
  "self.header.azimuth_resolution_spacing as f32 * 1.0,\n            match self.header.radial_status() {\n                RadialStatus::ElevationStart => ModelRadialStatus::ElevationStart,\n                RadialStatus::IntermediateRadialData => ModelRadialStatus::IntermediateRadialData,\n                RadialStatus::ElevationEnd => ModelRadialStatus::ElevationEnd,\n                RadialStatus::VolumeScanStart => ModelRadialStatus::VolumeScanStart,\n                RadialStatus::VolumeScanEnd => ModelRadialStatus::VolumeScanEnd,\n                RadialStatus::ElevationStartVCPFinal => ModelRadialStatus::ElevationStartVCPFinal,\n            },\n            self.header.elevation_number,\n            self.header.elevation_angle,\n            self.reflectivity_data_block\n                .as_ref()"),
 ("c07_raw1_below_threshold_model", ["C07", "C01"], "nexrad-model/src/data/moment.rs",
  "1 => MomentValue::RangeFolded,", "1 => MomentValue::BelowThreshold,"),
 ("c08_day_off_by_one_data", ["C08", "C05"], "nexrad-data/src/volume/util.rs",
  "Duration::days(modified_julian_date as i64 - 1)", "Duration::days(modified_julian_date as i64)"),
 ("c08_date_as_u8_boundary", ["C08"], "nexrad-decode/src/util.rs",
  "Duration::days(modified_julian_date as i64 - 1)", "Duration::days((modified_julian_date as i64 - 1).min(47_500))"),
 ("c09_sort_unstable_desc_ties", ["C09"], "nexrad-model/src/data/sweep.rs",
  "radials.sort_by_key(|radial| radial.azimuth_number());", "radials.sort_unstable_by(|a, b| a.azimuth_number().cmp(&b.azimuth_number()).then(b.collection_timestamp().cmp(&a.collection_timestamp())));"),
 ("c09_label_next", ["C09", "C01"], "nexrad-model/src/data/sweep.rs",
  "sweeps.push(Sweep::new(elevation_number, sweep_radials));\n                    sweep_radials = Vec::new();", "sweeps.push(Sweep::new(radial.elevation_number(), sweep_radials));\n                    sweep_radials = Vec::new();"),
 ("c10_29_31_swapped", ["C10", "C03"], "nexrad-decode/src/messages/message_header.rs",
  "29 => MessageType::Reserved5,", "30 => MessageType::Reserved5,"),
 ("c10_segmented_le", ["C10"], "nexrad-decode/src/messages/message_header.rs",
  "pub fn segmented(&self) -> bool {\n        self.segment_size < VARIABLE_LENGTH_MESSAGE_SIZE", "pub fn segmented(&self) -> bool {\n        self.segment_size < VARIABLE_LENGTH_MESSAGE_SIZE - 1"),
 ("c11_angle_loop", ["C11"], "nexrad-decode/src/messages/volume_coverage_pattern/elevation_data_block.rs",
  "for i in 3..16 {", "for i in 4..16 {"),
 ("c11_mask", ["C11"], "nexrad-decode/src/messages/volume_coverage_pattern/header.rs",
  "((self.vcp_supplemental_data & 0x000E) >> 1) as u8", "((self.vcp_supplemental_data & 0x0006) >> 1) as u8"),
 ("c12_alarm_keys", ["C12"], "nexrad-decode/src/messages/rda_status_data/alarm/definitions.rs",
  "        700 => Some(Message::new(\n            700,", "        700 => Some(Message::new(\n            701,"),
 ("c12_summary_mask", ["C12"], "nexrad-decode/src/messages/rda_status_data/alarm/summary.rs",
  "self.0 & 0b1000000 != 0", "self.0 & 0b100000 != 0"),
 ("c13_359", ["C13"], "nexrad-decode/src/messages/clutter_filter_map.rs",
  "for azimuth_number in 0..360 {", "for azimuth_number in 0..359 {"),
 ("c14_continuation_last_only", ["C14"], "nexrad-decode/src/summarize.rs",
  "&& summary.message_groups.iter().rev().any(|g| {", "&& summary.message_groups.iter().rev().take(2).any(|g| {"),
 ("c14_end_index", ["C14"], "nexrad-decode/src/summarize.rs",
  "                    group.end_azimuth = Some(radar_data.header.azimuth_angle);\n                    group.end_message_index = i;", "                    group.end_azimuth = Some(radar_data.header.azimuth_angle);\n                    group.end_message_index = i - (i / 400);"),
 ("c15_phase1_nearest_dropped", ["C15"], "nexrad-data/src/aws/realtime/search.rs",
  "            if mid_value_ref <= some_target && nearest_value.as_ref() < mid_value_ref {\n                nearest = Some(mid);\n                nearest_value = mid_value.clone();\n            }", "            if mid_value_ref <= some_target && nearest_value.as_ref() < mid_value_ref && mid > 0 {\n                nearest = Some(mid);\n                nearest_value = mid_value.clone();\n            }"),
 ("c15_mid_rounds_up", ["C15"], "nexrad-data/src/aws/realtime/search.rs",
  "let mid = low + (high - low) / 2;", "let mid = (low + (high - low + 1) / 2).min(high - 1);"),
 ("c15_wrapped_target_test", ["C15"], "nexrad-data/src/aws/realtime/search.rs",
  "    let target_wrapped = target < first;", "    let target_wrapped = target <= first;"),
 ("c15_index_shift", ["C15", "C18"], "nexrad-data/src/aws/realtime/get_latest_volume.rs",
  ".map(|volume| volume.map(|index| VolumeIndex::new(index + 1)))?;", ".map(|volume| volume.map(|index| VolumeIndex::new(if index == 0 { 999 } else { index + 1 })))?;"),
 ("c16_wrap_ge_999", ["C16", "C18"], "nexrad-data/src/aws/realtime/chunk_identifier.rs",
  "if volume > 999 {", "if volume >= 999 {"),
 ("c16_e_at_54", ["C16"], "nexrad-data/src/aws/realtime/chunk_identifier.rs",
  "if next_sequence == 55 {\n                chunk_type = ChunkType::End;", "if next_sequence >= 54 {\n                chunk_type = ChunkType::End;"),
 ("c17_ignore_truncated_when_full", ["C17"], "nexrad-data/src/aws/archive/list_files.rs",
  "if list_result.truncated {", "if list_result.truncated && list_result.objects.len() < 1000 {"),
 ("c17_last_modified_leaks", ["C17"], "nexrad-data/src/aws/s3/list_objects.rs",
  "                \"Contents\" => {\n                    object = Some(BucketObject {\n                        key: String::new(),\n                        last_modified: None,", "                \"Contents\" => {\n                    let previous = objects.last().and_then(|o: &BucketObject| o.last_modified);\n                    object = Some(BucketObject {\n                        key: String::new(),\n                        last_modified: previous,"),
 ("c18_skip_missing_chunk", ["C18"], "nexrad-data/src/aws/realtime/poll_chunks.rs",
  "let (next_chunk_id, next_chunk) = next_chunk.ok_or(AWSError::ExpectedChunkNotFound)?;", "let (next_chunk_id, next_chunk) = match next_chunk { Some(x) => x, None => { let skipped = next_chunk_id.with_sequence(next_chunk_id.sequence().unwrap_or(1) + 1); download_chunk(site, &skipped).await? } };"),
 ("c18_payload_of_previous", ["C18"], "nexrad-data/src/aws/realtime/download_chunk.rs",
  "chunk_id.name().to_string(),\n            downloaded_object.metadata.last_modified,", "chunk_id.name().to_string(),\n            downloaded_object.metadata.last_modified.filter(|_| chunk_id.sequence() != Some(3)),"),
 ("c18_stop_only_after_success", ["C18"], "nexrad-data/src/aws/realtime/poll_chunks.rs",
  "        if stop_rx.try_recv().is_ok() {\n            break;\n        }", "        if previous_chunk_time.is_some() && stop_rx.try_recv().is_ok() {\n            break;\n        }"),
 ("c19_six_three", ["C19"], "nexrad-data/src/aws/realtime/get_elevation_from_chunk.rs",
  "if sequence <= chunk_count {", "if sequence < chunk_count {"),
 ("c19_window_ge", ["C19"], "nexrad-data/src/aws/realtime/chunk_timing_stats.rs",
  "if entry.len() > MAX_TIMING_SAMPLES {\n            entry.pop_front();", "if entry.len() > MAX_TIMING_SAMPLES {\n            entry.pop_back();"),
 ("c20_bzip2_ungated", ["C20"], "nexrad-data/src/volume/record.rs",
  '    #[cfg(feature = "bzip2")]\n    pub fn decompress', '    #[cfg(feature = "nexrad-decode")]\n    pub fn decompress'),
]

def sh(cmd, **kw):
    return subprocess.run(cmd, shell=True, capture_output=True, text=True, **kw)

def main():
    sel = sys.argv[1:]
    results = []
    assert sh("git -C /repo status --porcelain").stdout.strip() == "", "/repo not clean"
    for name, checks, f, old, new in M:
        if sel and not any(s in name for s in sel):
            continue
        src = open(R + f).read()
        if old not in src:
            print(f"{name}: PATTERN NOT FOUND in {f}")
            results.append((name, "pattern-missing"))
            continue
        open(R + f, "w").write(src.replace(old, new, 1))
        try:
            t = sh("cd /repo && cargo test --workspace --offline 2>&1 | grep -E 'test result: .* [1-9][0-9]* passed|FAILED|^error' | head -3")
            tests_ok = "37 passed; 0 failed" in t.stdout
            det = {}
            for c in checks:
                r = sh(f"cd /verif && ./check {c} quick")
                sigs = [l.strip() for l in r.stdout.splitlines() if l.strip().startswith("signature:")]
                det[c] = (r.returncode, sigs[:3])
            print(f"{name}: tests_green={tests_ok} " + " ".join(f"{c}:rc={v[0]}" for c, v in det.items()))
            for c, v in det.items():
                for s in v[1]:
                    print("      ", c, s)
            if not tests_ok:
                print("      tests:", t.stdout.strip()[:300])
            results.append((name, tests_ok, {c: v[0] for c, v in det.items()}))
        finally:
            sh("git -C /repo checkout -- .")
    json.dump(results, open("/verif/.target/own_mutants_result.json", "w"), indent=1)
    sh("cd /verif/harness && cargo build --release --offline")

main()
