#!/usr/bin/env python3
import json, sys, glob, jsonschema
schema = json.load(open('/root/.vp/EVIDENCE.schema.json'))
bad = 0
for f in sorted(glob.glob('/verif/evidence/*.json')):
    try:
        jsonschema.validate(json.load(open(f)), schema)
        e = json.load(open(f))
        c = e['coverage']
        print(f"ok   {f} tier={e['tier']} level={e['level']} evals={c.get('evaluations')} distinct={c.get('distinct_nontrivial')} states={c.get('states')} viol={e.get('violations')} wall={e['wall_s']}")
    except Exception as ex:
        bad += 1
        print(f"BAD  {f}: {str(ex)[:300]}")
sys.exit(1 if bad else 0)
