#!/bin/bash
# Re-runs every kept seeded change against its property's quick check; prints a summary.
cd /verif
miss=0
for d in seeded/*/; do
  n=$(basename $d); id=${n%-*}; var=${n#*-}
  [ -f $d/patch.diff ] || continue
  # optional: REGRESS_FROM=C13-D resumes an interrupted run at that change
  if [ -n "${REGRESS_FROM:-}" ] && [[ "$n" < "$REGRESS_FROM" ]]; then continue; fi
  # optional filter: REGRESS_VARIANTS="D E F" restricts the run to those variants
  if [ -n "${REGRESS_VARIANTS:-}" ] && ! echo " $REGRESS_VARIANTS " | grep -q " $var "; then continue; fi
  git -C /repo apply /verif/$d/patch.diff || { echo "$n: PATCH DOES NOT APPLY"; continue; }
  out=$(timeout 1200 ./check $id quick 2>&1); rc=$?
  git -C /repo checkout -- . ; git -C /repo clean -fdq
  sig=$(echo "$out" | grep -m1 "signature:" | sed 's/ *signature: //')
  if [ $rc -ne 1 ]; then miss=$((miss+1)); echo "$n: rc=$rc  MISSED/ERROR $(echo "$out" | grep -m1 MACHINERY)"; else echo "$n: detected  $sig"; fi
done
echo "missed_or_error=$miss"
cd /verif/harness && cargo build --release --offline >/dev/null 2>&1
