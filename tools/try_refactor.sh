#!/bin/bash
# applies a behaviour-preserving refactor patch to /repo, runs every quick check, reverts
p=$1
git -C /repo status --porcelain | grep -q . && { echo "/repo not clean"; exit 1; }
git -C /repo apply $p || { echo "patch does not apply"; exit 1; }
cd /verif
for id in C01 C02 C03 C04 C05 C06 C07 C08 C09 C10 C11 C12 C13 C14 C15 C16 C17 C18 C19 C20; do
  out=$(./check $id quick 2>&1); rc=$?
  if [ $rc -ne 0 ]; then echo "ALARM $id rc=$rc"; echo "$out" | grep -E "signature|detail|MACHINERY|^error" | head -6 | cut -c1-300; else echo "quiet $id"; fi
done
git -C /repo checkout -- . ; git -C /repo clean -fdq
