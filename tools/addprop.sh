#!/bin/bash
# register a property module in main.rs/mod.rs
id=$1; lc=$(echo $id | tr 'A-Z' 'a-z')
grep -q "pub mod $lc;" /verif/harness/src/props/mod.rs || echo "pub mod $lc;" >> /verif/harness/src/props/mod.rs
grep -q "(\"$id\"" /verif/harness/src/main.rs || sed -i "s|    vec!\[|    vec![\n        (\"$id\", props::$lc::run as RunFn, props::$lc::replay as ReplayFn),|" /verif/harness/src/main.rs
