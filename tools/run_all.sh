#!/bin/bash
# usage: tools/run_all.sh <quick|thorough> [ids...]
tier=${1:-quick}; shift
ids=${@:-C01 C02 C03 C04 C05 C06 C07 C08 C09 C10 C11 C12 C13 C14 C15 C16 C17 C18 C19 C20}
cd /verif
for id in $ids; do
  s=$(date +%s.%N)
  out=$(./check $id $tier 2>&1); rc=$?
  e=$(date +%s.%N)
  printf "%s rc=%d %.1fs %s\n" $id $rc $(echo "$e - $s" | bc) "$(echo "$out" | grep -cE '^VIOLATION') violations, $(echo "$out" | grep -cE '^KNOWN-FINDING') known"
  if [ $rc -ne 0 ]; then echo "$out" | grep -E "VIOLATION|signature|MACHINERY" | head -8; fi
done
