#!/usr/bin/env python3
"""Generates /verif/MANIFEST.json from the table below (kept in one place so it stays valid)."""
import json, subprocess

HOOK_COMMITS = ["bb18efc"]

CHECKS = {
 # id: (level, technique, text, note, design_ref, engine)
 "C01": ("exploration",
         "bounded-exhaustive enumeration of reference-encoded volumes (every record partition, metadata at every position) against the encoder's own radial list",
         "Volumes are produced by an independent Archive II / type-31 encoder: every elevation word over {1,2,3} up to length 4/5, run-length patterns, EVERY partition of the message stream into bzip2 records (<= 8 messages), SAILS / 255 / 1..=255 sequences, a metadata frame of each kind at every position, moment subsets x gate counts x VOL placements, a 2,520-radial volume. the small cases again with the radial status decoupled from the elevation runs (all intermediate / all elevation-start / cycling through the six codes), File::scan must return exactly the encoder's radials (identity by unique timestamp, values via the reference conversion) in maximal equal-elevation runs and the first VOL block's VCP number.",
         "bzip2 encoder, reference layouts (DESIGN Appendix A); only well-formed volumes", "DESIGN.md §5 C01", "E3"),
 "C02": ("exploration",
         "product enumeration of type-31 block orders x pointer layouts x gates x word sizes x value plans, per-offset oracle",
         "All ordered selections of <=3/4 of the 10 block kinds plus all 1024 subsets in canonical and reversed order, x {contiguous, gap 1, gap 7, permuted pointer table[, rotated+gap]} x gates {0,1,2,1840,1841} x word size {8,16} x 2/5 value plans in which every field holds a distinct value; every decoded header/block field is compared with the big-endian bytes at its ICD offset, gate bytes and absence included.",
         "independent offset tables; f32 compared by bit pattern", "DESIGN.md §5 C02", "E3"),
 "C03": ("exploration",
         "exhaustive enumeration of message streams over a kind alphabet and all type-code pairs; every truncation point; differential oracle",
         "All streams of length 0..=5/6 over 9 message kinds (status, VCP, type 15, 3, 18, unknown 200, type-31 with 0/4/10 blocks), all 256x16/256x256 two-frame type-code pairs, 300-message streams, every truncation point of a base set, and a context sweep in which the first message has one body halfword or - for every fixed-length kind - its header size / segment-count / segment-number field (incl. the variable-length marker with five 32-bit sizes) varied. Message i must equal the same bytes decoded alone, counts and order preserved, undecoded types are placeholders occupying one frame, cuts inside a body are errors and shorter-than-header tails are ignored.",
         "reference framing (2432-byte frames, contiguous type-31)", "DESIGN.md §5 C03", "E3"),
 "C04": ("exploration",
         "deviation-bounded mutation (<=2 byte deviations from valid streams), every prefix, field-extreme products (type-31 blocks, message-header size/segment fields incl. 32-bit sizes up to 4 GiB) and an exhaustive small scope of byte strings, under a counting allocator, fuel reader and watchdog",
         "Totality of every decode entry point and of radial()/into_radial(): all prefixes of valid streams, all single-byte mutations x 8 values and all pairs on structural bytes, type-31/VCP/clutter field extremes, all strings of length <=2 x 256 type codes and all strings of length 3..6/8 over an 8-symbol alphabet. Each call must return, not exhaust a 64+8*len operation budget, and keep peak allocation under 4 MiB + 64*len.",
         "bounded scope (not all byte strings); allocator/fuel/watchdog in the harness", "DESIGN.md §5 C04", "E1/E3"),
 "C05": ("exploration",
         "product enumeration of container files (record kinds x sizes x signs x payloads x levels) against the writer's own record list",
         "0..=4 records per file, raw and bzip2 records of 8 sizes (0 B..70,000 B, plus 900 KiB multi-block), both prefix signs, six payload kinds including bzip2 look-alikes and already-compressed payloads, five header plans: records must tile file[24..], compressed() <=> 'BZ' after the prefix, decompress round-trips, the error cases are errors, header accessors return the encoded values; chunk wrappers included.",
         "bzip2 encoder trusted", "DESIGN.md §5 C05", "E3"),
 "C06": ("exploration",
         "exhaustive small scope of byte strings, every truncation point of valid containers and byte corruption sweep through every container operation",
         "Every length 0..=64 x 13 content families, all strings of length <=2, all strings of length 3..6/7 over {00,04,FF,A,R,2,B,Z}, every truncation point of 12 volumes and 8 chunks, every byte x {00,FF,bit flips} of small records: File/Record/Chunk operations (records, header, scan, compressed, decompress, messages, Debug, ...) must return and terminate.",
         "bounded scope; watchdog for termination", "DESIGN.md §5 C06", "E1/E3"),
 "C07": ("exploration",
         "exhaustive raw-value enumeration (2^8 and 2^16) per moment and scale/offset pair; header mapping product",
         "All 256 raw values x 7 moments x 10 (scale, offset) pairs and all 65,536 raw values for 16-bit moments, compared bit-exactly with (raw-offset)/scale at decode level and model level; status 0..=7 x spacing codes x azimuth/elevation bounds x date/time; all 128 moment subsets x 4 gate counts; radial() == into_radial().",
         "f32 reference arithmetic; scale 0 with raw 0/1 only checked for decode==model", "DESIGN.md §5 C07", "E3"),
 "C08": ("exploration",
         "exhaustive cross over the complete day domain and the complete minute/millisecond domains for all seven date-time accessors",
         "All 65,536 day counts x boundary ms/min and x all 1,440 minutes; all 65,536 minute values x 16 boundary days; (thorough) 16 days x all 86,400,000 ms; out-of-range values must return. Oracle (d-1)*86400000+t in i64, the same for the decode and data crates.",
         "full (day, ms) product not enumerable; fast path mutates public wire fields of decoded structs", "DESIGN.md §5 C08", "E3"),
 "C09": ("model_checking",
         "explicit-state search (stateright BFS+DFS) over elevation words, invariant calls the real Sweep::from_radials in every state; exhaustive product for merge",
         "Every elevation word over {1,2,3} up to depth 9 (quick) / 11 (thorough), {0,1,255} up to 7/9 and {1..5} up to 7 is a state; in each state the real from_radials is run and compared with a reference grouping (conservation, labels, maximality, split-differential). merge is checked on every pair of azimuth words up to length 3/4 x same/different elevation. Coverage statement, not a sample.",
         "reference grouping / stable-merge model in the harness; radials built through the public constructor; overflow checks on",
         "DESIGN.md §5 C09", "E2"),
 "C10": ("exploration",
         "exhaustive enumeration of type codes, size values and count/number planes",
         "All 256 type codes (own variant / Unknown(code), injective), six channel codes, 5 layout plans, all 65,536 size values x 49 boundary (count, number) pairs, complete count and number planes for the variable-length marker: segmented(), both size accessors (plain and uom), segment count/number must follow the stated semantics and return.",
         "type table transcribed from the enum discriminants; overflow-checks on", "DESIGN.md §5 C10", "E3"),
 "C11": ("exploration",
         "exhaustive raw-value enumeration (2^16 / 2^8) per accessor; all cut counts; per-offset layout oracle",
         "Cut counts 0..=51 under 5 value plans with every header/cut field compared with its ICD offset; counts that do not fit the frame must be errors; all 65,536 raw values through every angle/rate/threshold/bit-field accessor and all 256 through byte-wide codes, against mask/shift and scaling formulas.",
         "bit/offset tables from DESIGN Appendix A/B; uom accessors with 1e-9 tolerance", "DESIGN.md §5 C11", "E3"),
 "C12": ("exploration",
         "exhaustive raw-value enumeration per flag word/coded field/alarm code; per-halfword layout oracle",
         "5 value plans over all 60 halfwords; every documented (code, meaning) pair of 14 coded fields with pairwise distinctness; all 65,536 raw values through every flag accessor (exact mask), scaled values, build rule, VCP sign rule, clutter segment subsets and the alarm lookup; all placements of <=2/3 alarm codes among the 14 slots.",
         "code tables by numeric value from the field documentation (DESIGN Appendix B)", "DESIGN.md §5 C12", "E3"),
 "C13": ("exploration",
         "enumeration of all segment counts and zone-count patterns; every truncation point",
         "Segment counts 0..=255, five zone-count patterns (0, 1, 25, varying, mixed) for small counts, a 65,535-zone azimuth, and every truncation point of two (thorough four) maps; decoded structure must equal the encoder's, truncations must be errors.",
         "segment numbering checked as consecutive", "DESIGN.md §5 C13", "E3"),
 "C14": ("model_checking",
         "explicit-state search (stateright BFS) over message words; invariant runs the real summarize::messages in every state against a reference grouper",
         "Words over {R1, R1v, R2, S, V, O3, O18} to depth 6/7, {R1,R2} to depth 12/14 and a 4/5-symbol alphabet to depth 7/8, each symbol a real decoded message stamped with its position; tiling, count=span, maximal-run rule, continuation flags, data-type counts, first/last azimuth and time, collection-time range, VCP set and a split differential are checked in every state; every word over {R1,R2,S} to length 5/6 again with the radial status of <= 2 radials set to each (pair) of the six codes and other free header fields varied (the summary must not depend on them).",
         "coded fields within documented domains; data-type names are the public HashMap keys", "DESIGN.md §5 C14", "E2"),
 "C15": ("model_checking",
         "exhaustive enumeration of all 998,002 bucket shapes through the real search (hook) plus simulator runs of get_latest_volume with probe-trace conformance",
         "Every (newest position, populated count) shape at N=999 and every shape for N in 1..=64 is run through the real rotated search with target MAX; get_latest_volume is run against the S3 simulator for 63+ bucket states and the directories it requests must equal the search-level probe trace, result, call count and probe bound checked.",
         "verif-hooks (search wrapper, endpoint override); shapes are single contiguous runs with distinct upload times", "DESIGN.md §5 C15", "E3/E4"),
 "C16": ("model_checking",
         "explicit-state search (stateright) of the successor graph whose transition function is the real next_chunk; exhaustive 999x55 enumeration",
         "Reachable set from (1,1) must be exactly 54,945 positions with in-degree 1 and a 54,945-step orbit; every position x 3 prefixes as initial state; all names parse back; with_sequence 55x55; archive names for every date 1991..2040 and every second of a day; totality over multi-byte insertions at every offset and all short strings over a 10-symbol alphabet.",
         "independent civil-date arithmetic; debug-assertions off", "DESIGN.md §5 C16", "E2/E3"),
 "C19": ("model_checking",
         "explicit-state search (stateright BFS) over histories of recorded timings; exhaustive cut lists x sequences",
         "Every cut list over {half-degree, other} up to length 10/12 x sequences up to 100/200 against a cumulative-sum model; estimate defaults over waveform x channel x previous sequence 0..=60; every history over 3 samples x 1 key to depth 11/12 (and 2-3 keys shallower): in every state the real estimate must equal previous + mean(last 10) + (mean attempts - 1) s within 1 s and get_statistics must agree; every ordered pair of the 72 distinct characteristics (3 chunk types x 6 waveforms x 4 channel configurations) must keep separate windows.",
         "1 s tolerance for history-based estimates", "DESIGN.md §5 C19", "E2/E3"),
}


CHECKS.update({
 "C17": ("fault_enumeration",
         "fault enumeration: bucket contents x request x every answer of a response menu, against a loopback S3 simulator",
         "Both listing entry points and both download entry points run against an in-process S3 simulator: all buckets of 0..=2 (3) objects over a 10-name alphabet (XML specials, non-ASCII, 900 chars, nested) x 4 sizes (to 2^64-1) x timestamp forms plus near-miss keys and 999/1000/1001-object buckets, x response menu {normal, IsTruncated, three unparsable sizes, garbled XML, two element orders, empty body}; downloads over names x sizes x 8 HTTP statuses x Last-Modified forms x short body, and chunk downloads again with an identifier that already carries a time (equal / earlier / later than the object's). Listings must equal the reference list, truncated archive listings and bad sizes must be errors, the request log must show exactly the expected key, 200 must return identical bytes/time/identifier, 404 the not-found error, other statuses an error, never a panic.",
         "verif-hooks endpoint override; simulator's HTTP/XML framing and bucket model", "DESIGN.md §5 C17", "E1/E4"),
 "C18": ("model_checking",
         "stateless model checking of the implementation: deviation-bounded DFS over environment answers (choice sequences) with the real poll_chunks re-executed for every schedule on a paused clock",
         "The real poll_chunks runs against the S3 simulator with a scripted uploader. Roots cross 30 start positions (volumes 1/500/997/998/999 x sequences 1/2/30/53/54/55) with stop signals before polling and while serving request #k, consumer drops after k deliveries, upload times around now, next-volume listings of 1-3 chunks, a long horizon and discovery faults; under each root ALL executions with <= 1 (quick) / 2-3 (thorough) deviations are enumerated, every post-discovery request being a choice point (present / 404 once / 500 once / transfer cut half-way once / garbled / never). Each execution is judged against the uploaded-object model: first delivery, successor relation incl. 999->1, no gap/repeat, byte-identical payloads and labels, <= 1 delivery after stop and Ok, Err exactly on budget exhaustion or consumer gone, no request outside {next chunk, next volume listing}; reachability obligations are enforced.",
         "simulator framing, tokio paused clock, schedule reduction argument (stop flag read at one point per iteration)", "DESIGN.md §5 C18", "E1/E4"),
 "C20": ("exploration",
         "exhaustive enumeration of the feature powerset x build profile with cargo build (library) / cargo check (examples) as oracle",
         "Features are derived from the four manifests; thorough covers every subset per crate (2^3, 2^2, 2^11 with verif-hooks, 2^3) plus default and --all-features, with examples whenever their required-features are on; quick covers the complete powersets of the small crates and for nexrad-data the named powerset, each optional dependency alone / on top of named features, every pair, every triple and every all-but-one set. Every set in both build profiles (dev and --release); the library is built (post-monomorphisation errors count), examples are type-checked, library and examples in separate invocations.",
         "cargo build / cargo check as build oracle (opt-level 0 in both profiles); offline registry cache", "DESIGN.md §5 C20", "E5"),
})

ENV_NOTE = ("every enumeration is repeated under the process-environment dimensions the harness owns: log level passes (Trace, Debug[, Info, Warn, Error], Off), "
            "TZ with DST, wall clock (clock_gettime defined by the harness binary; 1986 in the Trace pass, relative offsets where timestamps matter), odd-address byte buffers (Debug pass), "
            "environment-variable-shaped source literals set (Debug pass), one-CPU threads, calls from inside current-thread / LocalSet / multi-thread tokio runtimes, cross-API disturbances and operation histories on fresh threads, and in the applicable build configurations (dbg, bare, aws, dec, x1, x2) whose failures are merged into the verdict")

PENDING = {
}

def main():
    props = [json.loads(l) for l in open('/verif/properties.jsonl')]
    checks = []
    na = []
    for p in props:
        pid = p['id']
        if pid in CHECKS:
            level, tech, text, note, ref, eng = CHECKS[pid]
            checks.append({
                "property_id": pid,
                "quick_cmd": f"./check {pid} quick",
                "thorough_cmd": f"./check {pid} thorough",
                "evidence_file": f"/verif/evidence/{pid}.json",
                "replay_cmd_template": f"./check {pid} --replay {{path}}",
                "engine": eng,
                "level_claimed": {"category": level, "text": text, "design_ref": ref},
                "level_note": note + ("" if pid == "C20" else "; " + ENV_NOTE),
                "technique": tech,
            })
        else:
            na.append({"property_id": pid, "reason": PENDING.get(pid, "check not built yet in this round (planned in DESIGN.md §5); not claimed until its harness exists")})
    m = {
        "version": 1,
        "setup_cmd": "/verif/check C12 quick >/dev/null 2>&1; (/verif/check C20 quick >/dev/null 2>&1 || true)",
        "hooks": {
            "guard": "cargo feature `verif-hooks` on nexrad-data",
            "enable": "the harness crate depends on /repo/nexrad-data by path and enables its verif-hooks feature (harness features full and v-aws); env NEXRAD_VERIF_S3_ENDPOINT selects the loopback S3 simulator",
            "baseline_off_cmd": "cd /repo && cargo test --workspace --no-fail-fast --offline",
            "source_commits": HOOK_COMMITS,
            "add_only": True,
        },
        "engines": [
            {"name": "E1", "path": "/verif/harness/src/explore.rs", "serves_properties": ["C17", "C18"], "kind_free_text": "choice-sequence DFS with deviation bounding over environment answers (stateless exploration of the implementation)"},
            {"name": "E2", "path": "/verif/harness/src/props", "serves_properties": ["C09", "C14", "C16", "C19"], "kind_free_text": "stateright explicit-state search whose invariant calls the real step function in every state"},
            {"name": "E3", "path": "/verif/harness/src/core.rs", "serves_properties": ["C01", "C02", "C03", "C04", "C05", "C06", "C07", "C08", "C10", "C11", "C12", "C13", "C15"], "kind_free_text": "bounded-exhaustive product enumeration of input shapes against reference encoders/models"},
            {"name": "E4", "path": "/verif/harness/src/s3sim.rs", "serves_properties": ["C15", "C17", "C18"], "kind_free_text": "loopback S3 simulator + tokio paused clock"},
            {"name": "E5", "path": "/verif/harness/src/props/c20.rs", "serves_properties": ["C20"], "kind_free_text": "cargo build / check over the feature powerset x {dev, release}"},
        ],
        "checks": checks,
        "not_applicable": na,
        "notes": "All checks go through /verif/check, which rebuilds the harness against /repo's working tree (path dependencies) before running. Exit 0 held / 1 violation / 2 build failure / 3 machinery failure.",
    }
    json.dump(m, open('/verif/MANIFEST.json', 'w'), indent=1)
    try:
        import jsonschema
        jsonschema.validate(m, json.load(open('/root/.vp/MANIFEST.schema.json')))
        print("MANIFEST valid;", len(checks), "checks,", len(na), "not claimed")
    except ImportError:
        print("jsonschema not available; wrote manifest")

main()
