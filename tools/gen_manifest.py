#!/usr/bin/env python3
"""Generates /verif/MANIFEST.json from the table below (kept in one place so it stays valid)."""
import json, subprocess

HOOK_COMMITS = ["bb18efc"]

CHECKS = {
 # id: (level, technique, text, note, design_ref, engine)
 "C09": ("model_checking",
         "explicit-state search (stateright BFS+DFS) over elevation words, invariant calls the real Sweep::from_radials in every state; exhaustive product for merge",
         "Every elevation word over {1,2,3} up to depth 9 (quick) / 11 (thorough), {0,1,255} up to 7/9 and {1..5} up to 7 is a state; in each state the real from_radials is run and compared with a reference grouping (conservation, labels, maximality, split-differential). merge is checked on every pair of azimuth words up to length 3/4 x same/different elevation. Coverage statement, not a sample.",
         "reference grouping / stable-merge model in the harness; radials built through the public constructor; overflow checks on",
         "DESIGN.md §5 C09", "E2"),
}

PENDING = {
}

def main():
    props = [json.loads(l) for l in open('/verif/properties.jsonl')]
    checks = []
    na = []
    for p in props:
        pid = p['id']
        if pid in CHECKS:
            level, tech, text, note, ref, eng = CHECKS[pid]
            checks.append({
                "property_id": pid,
                "quick_cmd": f"./check {pid} quick",
                "thorough_cmd": f"./check {pid} thorough",
                "evidence_file": f"/verif/evidence/{pid}.json",
                "replay_cmd_template": f"./check {pid} --replay {{path}}",
                "engine": eng,
                "level_claimed": {"category": level, "text": text, "design_ref": ref},
                "level_note": note,
                "technique": tech,
            })
        else:
            na.append({"property_id": pid, "reason": PENDING.get(pid, "check not built yet in this round (planned in DESIGN.md §5); not claimed until its harness exists")})
    m = {
        "version": 1,
        "setup_cmd": "cd /verif/harness && CARGO_NET_OFFLINE=true cargo build --release --offline",
        "hooks": {
            "guard": "cargo feature `verif-hooks` on nexrad-data",
            "enable": "the harness crate depends on /repo/nexrad-data by path with features = [\"verif-hooks\"]; env NEXRAD_VERIF_S3_ENDPOINT selects the loopback S3 simulator",
            "baseline_off_cmd": "cd /repo && cargo test --workspace --no-fail-fast --offline",
            "source_commits": HOOK_COMMITS,
            "add_only": True,
        },
        "engines": [
            {"name": "E1", "path": "/verif/harness/src/explore.rs", "serves_properties": ["C17", "C18"], "kind_free_text": "choice-sequence DFS with deviation bounding over environment answers (stateless exploration of the implementation)"},
            {"name": "E2", "path": "/verif/harness/src/props", "serves_properties": ["C09", "C14", "C16", "C19"], "kind_free_text": "stateright explicit-state search whose invariant calls the real step function in every state"},
            {"name": "E3", "path": "/verif/harness/src/core.rs", "serves_properties": ["C01", "C02", "C03", "C04", "C05", "C06", "C07", "C08", "C10", "C11", "C12", "C13", "C15"], "kind_free_text": "bounded-exhaustive product enumeration of input shapes against reference encoders/models"},
            {"name": "E4", "path": "/verif/harness/src/s3sim.rs", "serves_properties": ["C15", "C17", "C18"], "kind_free_text": "loopback S3 simulator + tokio paused clock"},
            {"name": "E5", "path": "/verif/harness/src/props/c20.rs", "serves_properties": ["C20"], "kind_free_text": "cargo check over the feature powerset"},
        ],
        "checks": checks,
        "not_applicable": na,
        "notes": "All checks go through /verif/check, which rebuilds the harness against /repo's working tree (path dependencies) before running. Exit 0 held / 1 violation / 2 build failure / 3 machinery failure.",
    }
    json.dump(m, open('/verif/MANIFEST.json', 'w'), indent=1)
    try:
        import jsonschema
        jsonschema.validate(m, json.load(open('/root/.vp/MANIFEST.schema.json')))
        print("MANIFEST valid;", len(checks), "checks,", len(na), "not claimed")
    except ImportError:
        print("jsonschema not available; wrote manifest")

main()
